import ACModel.Spec.Discretizer
import ACModel.Proofs.GroupedList
import ACModel.Proofs.Frame
import ACModel.Proofs.Multi
/-
  C04 — transform is exactly the mapping described by the fitted values_orders

  "For any fitted discretizer or carver and any row whose values were seen at fit, transform
  returns the label of the unique group of `values_orders` containing the value (for quantitative
  features: the first group whose upper bound is >= the value), numeric-looking qualitative values
  being matched through their string form. Distinct groups always receive distinct labels ('float'
  labels are the group's rank in the fitted order), and missing values receive their group's label
  when dropna=True and stay missing when dropna=False."

  Model: `ACModel/Model/Discretizer.lean` (`labelsOf`, `tableOf`, `selectLabel`, `transformQuantCol`,
  `transformQualCol`).  Specification: `ACModel/Spec/Discretizer.lean`.
-/

namespace C04
open Disc Spec

/-! ## Quantitative lookup: `select(x <= leader)` is "first leader ≥ x" -/

/-- **`select` semantics = the specification.** The label looked up for a number `x` is the
    label of the specification's group of `x` (`quantGroup`: first non-`str_nan` leader `≥ x`). -/
theorem selectPure_eq_spec (g : GL) (strNan : Option String) (table : LabelTable) (x : Val) :
    selectPure (g.lst.filter (neNan strNan)) table x =
      (match quantGroup g strNan x with
       | some l => (aget? table l).getD rawMarker
       | none => rawMarker) := rfl

/-- **Totality (the `+inf` sentinel).** When `inf` is among the leaders every number (or `inf`)
    gets the label of some leader `≥` it: nothing leaks. -/
theorem selectPure_total (leaders : List Val) (table : LabelTable) (x : Val)
    (hx : ∀ s, x ≠ .str s) (hinf : Val.inf ∈ leaders) :
    ∃ l ∈ leaders, leVal x l = true ∧ selectPure leaders table x = (aget? table l).getD rawMarker := by
  unfold selectPure
  have hle : leVal x .inf = true := by
    cases x <;> simp_all [leVal]
  cases hf : leaders.find? (fun l => leVal x l) with
  | none =>
    have := List.find?_eq_none.1 hf .inf hinf
    simp [hle] at this
  | some l =>
    exact ⟨l, List.mem_of_find?_eq_some hf, by simpa using List.find?_some hf, rfl⟩

/-- … and it is the *first* such leader: every earlier leader is `< x`. -/
theorem selectPure_first (leaders : List Val) (table : LabelTable) (x : Val) {l : Val}
    (hf : leaders.find? (fun l => leVal x l) = some l) :
    ∃ pre post, leaders = pre ++ l :: post ∧ ∀ a ∈ pre, leVal x a = false := by
  obtain ⟨hp, pre, post, heq, hpre⟩ := List.find?_eq_some_iff_append.1 hf
  exact ⟨pre, post, heq, fun a ha => by simpa using hpre a ha⟩

/-- Column level: a quantitative column without strings, in a state whose leaders all carry a
    label, is never rejected except by the missing-value assertion, and its output is the
    cell-wise lookup. -/
theorem transformQuantCol_ok (f : String) (g : GL) (table : LabelTable) (strNan : Option String)
    (col : Col) (hnan : (col.any Option.isNone && !(g.contains (nanArgOf strNan))) = false)
    (hstr : (g.lst.filter (neNan strNan)).any Val.isStr = false)
    (hcol : col.any cellIsStr = false)
    (htab : (g.lst.filter (neNan strNan)).any (fun l => (aget? table l).isNone) = false) :
    transformQuantCol f g table strNan col = .ok (col.map (quantCell g table strNan)) := by
  unfold transformQuantCol
  simp only [hnan, hstr, hcol, htab, Bool.or_self, Bool.false_eq_true, if_false]

/-- … and the only `AssertionError` it can raise is the missing-value one, naming the feature. -/
theorem transformQuantCol_assert (f : String) (g : GL) (table : LabelTable) (strNan : Option String)
    (col : Col) (m : String) (h : transformQuantCol f g table strNan col = .error (.assertion m)) :
    m = f ∧ col.any Option.isNone = true ∧ g.contains (nanArgOf strNan) = false := by
  unfold transformQuantCol at h
  dsimp only at h
  split at h
  · rename_i hc
    injection h with h
    injection h with h
    simp only [Bool.and_eq_true, Bool.not_eq_eq_eq_not, Bool.not_true] at hc
    exact ⟨h.symm, hc.1, hc.2⟩
  · split at h
    · cases h
    · split at h <;> cases h

/-! ## `float` labels are ranks, hence distinct -/

theorem labelsOf_float (g : GL) (isQuant : Bool) (strNan : Option String) {labels : List Val}
    (h : labelsOf g isQuant strNan true = .ok labels) :
    ∃ n, labels = (List.range n).map (fun i => Val.num ((i : Nat) : Rat)) := by
  unfold labelsOf at h
  cases hb : (if isQuant = true then getLabels g.lst strNan else .ok (g.lst.filter (neNan strNan))) with
  | error e => rw [hb] at h; cases h
  | ok base =>
    rw [hb] at h
    simp only [Except.map, finalLabels, if_true] at h
    injection h with h
    exact ⟨_, h.symm⟩

theorem float_labels_nodup (n : Nat) :
    ((List.range n).map (fun i => Val.num ((i : Nat) : Rat))).Nodup := by
  rw [List.Nodup, List.pairwise_map]
  refine List.Pairwise.imp ?_ List.nodup_range
  intro a b hab e
  injection e with e
  exact hab (by exact_mod_cast e)

/-- `float` labels are the ranks `0, 1, 2, …` in order: the `i`-th label is `i`. -/
theorem float_label_is_rank (n i : Nat) (hi : i < n) :
    ((List.range n).map (fun i => Val.num ((i : Nat) : Rat)))[i]? = some (Val.num (i : Rat)) := by
  simp [hi]

/-! ## Qualitative labels (`str` output) are the leaders themselves, hence distinct -/

theorem labelsOf_qual_str (g : GL) (strNan : Option String) :
    labelsOf g false strNan false = .ok (withNanLabel g strNan (g.lst.filter (neNan strNan))) := by
  simp [labelsOf, Except.map, finalLabels]

theorem neNan_false_iff {strNan : Option String} {v : Val} :
    neNan strNan v = false ↔ ∃ s, strNan = some s ∧ v = .str s := by
  cases strNan <;> cases v <;> simp [neNan]
  rename_i a b
  constructor
  · intro h; exact h.symm ▸ rfl
  · intro h; exact h.symm ▸ rfl

/-- With unique leaders (`WF`) the qualitative `str` labels are pairwise distinct. -/
theorem qual_str_labels_nodup (g : GL) (hwf : g.WF) (strNan : Option String) {labels : List Val}
    (h : labelsOf g false strNan false = .ok labels) : labels.Nodup := by
  rw [labelsOf_qual_str] at h
  injection h with h
  subst h
  have hf : (g.lst.filter (neNan strNan)).Nodup := hwf.1.filter _
  unfold withNanLabel
  cases hs : nanVal strNan with
  | none => simpa using hf
  | some n =>
    simp only
    split
    · rw [List.nodup_append]
      refine ⟨hf, by simp, ?_⟩
      intro a ha b hb hab
      simp only [List.mem_singleton] at hb
      subst hb; subst hab
      have := (List.mem_filter.1 ha).2
      cases strNan with
      | none => simp [nanVal] at hs
      | some s =>
        simp only [nanVal, Option.map_some, Option.some.injEq] at hs
        subst hs
        simp [neNan] at this
    · exact hf

/-! ## Non-vacuity -/

private def tbl : LabelTable := [(.num 1, .str "x <= 1"), (.num 5, .str "1 < x <= 5"), (.inf, .str "5 < x")]

example : selectPure [.num 1, .num 5, .inf] tbl (.num 3) = .str "1 < x <= 5" := by decide
example : selectPure [.num 1, .num 5, .inf] tbl (.num 1) = .str "x <= 1" := by decide
example : selectPure [.num 1, .num 5, .inf] tbl (.num 1000) = .str "5 < x" := by decide
example : transformQuantCol "f" (GL.ofList [.num 1, .num 5, .inf]) tbl (some "__NAN__")
    [some (.num 3), some (.num 7)] = .ok [some (.str "1 < x <= 5"), some (.str "5 < x")] := by decide

end C04

/-! ## The label table gives every member the label of its group -/

namespace C04
open Disc

theorem aget_aset_same {α β : Type} [DecidableEq α] (l : List (α × β)) (k : α) (v : β) :
    aget? (aset l k v) k = some v := by
  induction l with
  | nil => simp [aset, aget?]
  | cons h t ih =>
    obtain ⟨k', v'⟩ := h
    by_cases hk : k' = k
    · simp [aset, aget?, hk]
    · simp [aset, aget?, hk, ih]

theorem aget_aset_other {α β : Type} [DecidableEq α] (l : List (α × β)) (k k' : α) (v : β)
    (h : k' ≠ k) : aget? (aset l k v) k' = aget? l k' := by
  induction l with
  | nil => simp [aset, aget?, Ne.symm h]
  | cons hd t ih =>
    obtain ⟨k'', v''⟩ := hd
    by_cases hk : k'' = k
    · subst hk
      simp [aset, aget?, Ne.symm h]
    · by_cases hk2 : k'' = k'
      · subst hk2
        simp [aset, aget?, hk]
      · simp [aset, aget?, hk, hk2, ih]

theorem aget_fold_members (lab : Val) : ∀ (vs : List Val) (acc : LabelTable) (x : Val),
    aget? (vs.foldl (fun acc v => aset acc v lab) acc) x = if x ∈ vs then some lab else aget? acc x := by
  intro vs
  induction vs with
  | nil => intro acc x; simp
  | cons v t ih =>
    intro acc x
    simp only [List.foldl_cons, ih, List.mem_cons]
    by_cases hxt : x ∈ t
    · simp [hxt]
    · by_cases hxv : x = v
      · subst hxv; simp [hxt, aget_aset_same]
      · simp [hxt, hxv, aget_aset_other _ _ _ _ hxv]

/-- entries (members, label) written one after the other into the table -/
def writeAll (entries : List (List Val × Val)) (acc : LabelTable) : LabelTable :=
  entries.foldl (fun acc e => e.1.foldl (fun acc v => aset acc v e.2) acc) acc

theorem writeAll_notin : ∀ (entries : List (List Val × Val)) (acc : LabelTable) (x : Val),
    (∀ e ∈ entries, x ∉ e.1) → aget? (writeAll entries acc) x = aget? acc x := by
  intro entries
  induction entries with
  | nil => intro acc x _; rfl
  | cons e rest ih =>
    intro acc x h
    simp only [writeAll, List.foldl_cons]
    have := ih (e.1.foldl (fun acc v => aset acc v e.2) acc) x (fun e' he' => h e' (List.mem_cons_of_mem _ he'))
    simp only [writeAll] at this
    rw [this, aget_fold_members]
    simp [h e List.mem_cons_self]

theorem writeAll_member : ∀ (entries : List (List Val × Val)) (acc : LabelTable) (x : Val) (i : Nat)
    (hi : i < entries.length), x ∈ entries[i].1 →
    (∀ j (hj : j < entries.length), j ≠ i → x ∉ entries[j].1) →
    aget? (writeAll entries acc) x = some entries[i].2 := by
  intro entries
  induction entries with
  | nil => intro acc x i hi; simp at hi
  | cons e rest ih =>
    intro acc x i hi hx huniq
    simp only [writeAll, List.foldl_cons]
    cases i with
    | zero =>
      have hrest : ∀ e' ∈ rest, x ∉ e'.1 := by
        intro e' he'
        obtain ⟨j, hj, rfl⟩ := List.getElem_of_mem he'
        have := huniq (j + 1) (by simp; omega) (by omega)
        simpa using this
      have := writeAll_notin rest (e.1.foldl (fun acc v => aset acc v e.2) acc) x hrest
      simp only [writeAll] at this
      rw [this, aget_fold_members]
      simp only [List.getElem_cons_zero] at hx ⊢
      simp [hx]
    | succ k =>
      have hk : k < rest.length := by simpa using hi
      have := ih (e.1.foldl (fun acc v => aset acc v e.2) acc) x k hk (by simpa using hx)
        (by
          intro j hj hjk
          have := huniq (j + 1) (by simp; omega) (by omega)
          simpa using this)
      simp only [writeAll] at this
      simpa using this

/-- **Every member of the `i`-th group receives the `i`-th label** — the link between
    `values_orders` and what `transform` looks up (quantitative: by leader; qualitative: by value). -/
theorem tableOf_member (g : GL) (hwf : g.WF) (labels : List Val) (i : Nat) (hi : i < g.lst.length)
    (hl : i < labels.length) (v : Val) (hv : v ∈ g.get g.lst[i]) :
    aget? (tableOf g labels) v = some labels[i] := by
  have hwf' := (GL.wf_iff g).1 hwf
  obtain ⟨h1, h2, h3, ⟨h4, _⟩, _⟩ := hwf'
  unfold tableOf
  have hfuse : (g.lst.zip labels).foldl (fun acc gl => (g.get gl.1).foldl (fun acc v => aset acc v gl.2) acc) [] =
      writeAll ((g.lst.zip labels).map (fun gl => (g.get gl.1, gl.2))) [] := by
    unfold writeAll
    rw [List.foldl_map]
  rw [hfuse]
  have hlen : i < ((g.lst.zip labels).map (fun gl => (g.get gl.1, gl.2))).length := by
    simp only [List.length_map, List.length_zip]; omega
  have := writeAll_member ((g.lst.zip labels).map (fun gl => (g.get gl.1, gl.2))) [] v i hlen
    (by simpa using hv)
    (by
      intro j hj hji
      have hj' : j < g.lst.length ∧ j < labels.length := by
        simp only [List.length_map, List.length_zip] at hj; omega
      simp only [List.getElem_map, List.getElem_zip]
      intro hvj
      -- two different leaders whose groups share `v`: impossible in a well-formed list
      have hne : g.lst[j] ≠ g.lst[i] := by
        intro e
        exact hji ((List.getElem_inj h1).1 e)
      have hmem : ∀ k (hk : k < g.lst.length), (g.lst[k], g.get g.lst[k]) ∈ g.content := by
        intro k hk
        have hkk : g.lst[k] ∈ Dict.keys g.content := (h3 _).1 (List.getElem_mem hk)
        obtain ⟨vs, hvs⟩ := Dict.mem_keys.1 hkk
        have : g.get g.lst[k] = vs := by
          unfold GL.get; rw [(Dict.get?_eq_some h2).2 hvs]; rfl
        rw [this]; exact hvs
      exact h4 _ (hmem j hj'.1) _ (hmem i hi) hne v hvj hv)
  simpa using this

/-! ## A value seen at fit gets the label of its group: per cell, per column, on the whole frame -/

theorem mem_get?_mem {d : Dict} {k : Val} {vs : List Val} (h : Dict.get? d k = some vs) : (k, vs) ∈ d := by
  induction d with
  | nil => simp [Dict.get?] at h
  | cons kv t ih =>
    obtain ⟨k', vs'⟩ := kv
    unfold Dict.get? at h
    split at h
    · rename_i hk
      injection h with h
      subst h; subst hk
      exact List.mem_cons_self
    · exact List.mem_cons_of_mem _ (ih h)

theorem mem_values_of_mem_get {g : GL} {k v : Val} (h : v ∈ g.get k) : v ∈ g.values := by
  unfold GL.get at h
  cases hg : Dict.get? g.content k with
  | none => rw [hg] at h; simp at h
  | some vs =>
    rw [hg] at h
    simp only [Option.getD_some] at h
    unfold GL.values
    exact Dict.mem_allValues.2 ⟨(k, vs), mem_get?_mem hg, h⟩

/-- **Qualitative cell**: a member of the `i`-th group gets the `i`-th label. -/
theorem qualCell_member (g : GL) (hwf : g.WF) (labels : List Val) (strNan strDefault : Option String)
    (i : Nat) (hi : i < g.lst.length) (hl : i < labels.length) (v : Val) (hv : v ∈ g.get g.lst[i]) :
    qualCell (tableOf g labels) (qualPrepared g strNan strDefault (some v)) = some labels[i] := by
  have hmem : v ∈ g.values := mem_values_of_mem_get hv
  simp only [qualPrepared, hmem, not_true_eq_false, decide_false, Bool.false_and, Bool.false_eq_true, if_false, qualCell,
    tableOf_member g hwf labels i hi hl v hv, Option.getD_some]

/-- **Quantitative cell**: a number whose first leader `≥` it is the `i`-th leader gets the `i`-th
    label (right-closed intervals: `leader (i-1) < x ≤ leader i`). -/
theorem quantCell_member (g : GL) (hwf : g.WF) (labels : List Val) (strNan : Option String)
    (i : Nat) (hi : i < g.lst.length) (hl : i < labels.length) (x : Val)
    (hx : (g.lst.filter (neNan strNan)).find? (fun l => leVal x l) = some g.lst[i]) :
    quantCell g (tableOf g labels) strNan (some x) = some labels[i] := by
  have hself : g.lst[i] ∈ g.get g.lst[i] := by
    have hwf' := (GL.wf_iff g).1 hwf
    obtain ⟨_, h2, h3, ⟨_, _⟩, h5⟩ := hwf'
    have hk : g.lst[i] ∈ Dict.keys g.content := (h3 _).1 (List.getElem_mem hi)
    obtain ⟨vs, hvs⟩ := Dict.mem_keys.1 hk
    have : g.get g.lst[i] = vs := by
      unfold GL.get; rw [(Dict.get?_eq_some h2).2 hvs]; rfl
    rw [this]
    exact h5 _ hvs
  simp only [quantCell, selectPure, hx, tableOf_member g hwf labels i hi hl _ hself, Option.getD_some]

/-- **Qualitative column**: in an accepted column, every row holding a member of the `i`-th group
    comes out with the `i`-th label. -/
theorem transformQualCol_member (f : String) (g : GL) (hwf : g.WF) (labels : List Val) (strNan strDefault : Option String)
    (cin cout : Col) (h : transformQualCol f g (tableOf g labels) strNan strDefault cin = .ok cout)
    (k i : Nat) (hi : i < g.lst.length) (hl : i < labels.length) (v : Val)
    (hk : cin[k]? = some (some v)) (hv : v ∈ g.get g.lst[i]) : cout[k]? = some (some labels[i]) := by
  unfold transformQualCol at h
  simp only [] at h
  split at h
  · cases h
  · injection h with h
    subst h
    simp only [List.getElem?_map, hk, Option.map_some]
    rw [qualCell_member g hwf labels strNan strDefault i hi hl v hv]

/-- **Quantitative column**: in an accepted column, every row holding a number whose first leader
    `≥` it is the `i`-th leader comes out with the `i`-th label. -/
theorem transformQuantCol_member (f : String) (g : GL) (hwf : g.WF) (labels : List Val) (strNan : Option String)
    (cin cout : Col) (h : transformQuantCol f g (tableOf g labels) strNan cin = .ok cout)
    (k i : Nat) (hi : i < g.lst.length) (hl : i < labels.length) (x : Val)
    (hk : cin[k]? = some (some x))
    (hx : (g.lst.filter (neNan strNan)).find? (fun l => leVal x l) = some g.lst[i]) :
    cout[k]? = some (some labels[i]) := by
  unfold transformQuantCol at h
  simp only [] at h
  split at h
  · cases h
  · split at h
    · cases h
    · split at h
      · cases h
      · injection h with h
        subst h
        simp only [List.getElem?_map, hk, Option.map_some]
        rw [quantCell_member g hwf labels strNan i hi hl x hx]

/-! ### the whole frame -/

/-- what the last step of `transform` (missing values re-instated where `features_dropna[f]` is
    False) does to a cell of feature `fd.1`: the cells carrying the label of the missing-value
    marker become missing again -/
def nanFixOf (s : Disc) (fd : String × Bool) : Cell → Cell :=
  if fd.2 then id else
  match aget? s.lpv fd.1 with
  | none => id
  | some t => match nanVal s.strNan with
    | none => id
    | some n => match aget? t n with
      | some lab => fun cell => if cell = some lab then none else cell
      | none => id

def nanFix (s : Disc) (f : String) : Cell → Cell :=
  match s.featDropna.find? (fun fd => fd.1 = f) with
  | some fd => nanFixOf s fd
  | none => id

theorem nUpd_eq_map (s : Disc) (fd : String × Bool) (c c' : Col) (h : nUpd s fd c = .ok c') :
    c' = c.map (nanFixOf s fd) := by
  unfold nUpd at h
  unfold nanFixOf
  by_cases hb : fd.2 = true
  · simp only [hb, if_true] at h ⊢
    injection h with h; subst h; simp
  · simp only [hb, Bool.false_eq_true, if_false] at h ⊢
    cases hl : aget? s.lpv fd.1 with
    | none => rw [hl] at h; cases h
    | some t =>
      rw [hl] at h
      simp only [] at h ⊢
      cases hn : nanVal s.strNan with
      | none => rw [hn] at h; simp only [] at h ⊢; injection h with h; subst h; simp
      | some n =>
        rw [hn] at h
        simp only [] at h ⊢
        cases hlab : aget? t n with
        | none => rw [hlab] at h; simp only [] at h ⊢; injection h with h; subst h; simp
        | some lab => rw [hlab] at h; simp only [] at h ⊢; injection h with h; exact h.symm

/-- after `BaseDiscretizer.fit`, the label table of a fitted feature is `tableOf` of its order and
    of the labels `labelsOf` computes -/
theorem fit_lpv (s s' : Disc) (hfit : s.fit = .ok s') (f : String) (hf : f ∈ s.features) (g : GL)
    (hg : aget? s.orders f = some g) :
    ∃ labels, labelsOf g (decide (f ∈ s.quant)) s.strNan s.outFloat = .ok labels ∧
      aget? s'.lpv f = some (tableOf g labels) := by
  obtain ⟨htab, _⟩ := MultiLemmas.fit_table s s' hfit
  obtain ⟨tb, ht, hl⟩ := htab f hf
  unfold MultiLemmas.tableFor at ht
  rw [hg] at ht
  simp only [] at ht
  cases hlab : labelsOf g (decide (f ∈ s.quant)) s.strNan s.outFloat with
  | error e => rw [hlab] at ht; cases ht
  | ok labels =>
    rw [hlab] at ht
    injection ht with ht
    exact ⟨labels, rfl, by rw [hl, ← ht]⟩

open FrameLemmas in
/-- **`transform` is the mapping `values_orders` describes — qualitative features, whole frame.**
    In every accepted frame, every row whose value belongs to the `i`-th group of a fitted
    qualitative feature comes out with the `i`-th label (or missing again, when that label is the
    one of the missing values and `features_dropna[f]` is False). -/
theorem transform_seen_qual (s : Disc) (hs : s.Shape) (f : String) (hf : f ∈ s.qual) (hnq : f ∉ s.quant)
    (g : GL) (hg : aget? s.orders f = some g) (hwf : g.WF) (labels : List Val)
    (ht : aget? s.lpv f = some (tableOf g labels))
    (x0 x out : Frame) (hc : s.castFeatures x0 = .ok x) (htr : s.transform x0 = .ok out)
    (cin : Col) (hcin : aget? x f = some cin)
    (k i : Nat) (hi : i < g.lst.length) (hl : i < labels.length) (v : Val)
    (hk : cin[k]? = some (some v)) (hv : v ∈ g.get g.lst[i]) :
    ∃ cout, aget? out f = some cout ∧ cout[k]? = some (nanFix s f (some labels[i])) := by
  obtain ⟨_, hspec⟩ := transform_spec s hs x0 x out hc htr
  obtain ⟨cout, hct, hout⟩ := (hspec f).1 cin hcin
  refine ⟨cout, hout, ?_⟩
  unfold colTransform at hct
  simp only [hnq, if_false, Except.bind, hf, if_true] at hct
  cases hlu : lUpd s f cin with
  | error e => rw [hlu] at hct; cases hct
  | ok c2 =>
    rw [hlu] at hct
    simp only [] at hct
    have hc2 : c2[k]? = some (some labels[i]) := by
      unfold lUpd at hlu
      simp only [hg, ht] at hlu
      exact transformQualCol_member f g hwf labels s.strNan s.strDefault cin c2 hlu k i hi hl v hk hv
    unfold nanFix
    cases hfd : s.featDropna.find? (fun fd => fd.1 = f) with
    | none =>
      rw [hfd] at hct; simp only [] at hct
      injection hct with hct; subst hct
      simpa using hc2
    | some fd =>
      rw [hfd] at hct; simp only [] at hct
      rw [nUpd_eq_map s fd c2 cout hct]
      simp [List.getElem?_map, hc2]

open FrameLemmas in
/-- **… quantitative features, whole frame.**  Every row holding a number whose first boundary
    `≥` it is the `i`-th leader comes out with the `i`-th label (right-closed intervals). -/
theorem transform_seen_quant (s : Disc) (hs : s.Shape) (f : String) (hf : f ∈ s.quant) (hnq : f ∉ s.qual)
    (g : GL) (hg : aget? s.orders f = some g) (hwf : g.WF) (labels : List Val)
    (ht : aget? s.lpv f = some (tableOf g labels))
    (x0 x out : Frame) (hc : s.castFeatures x0 = .ok x) (htr : s.transform x0 = .ok out)
    (cin : Col) (hcin : aget? x f = some cin)
    (k i : Nat) (hi : i < g.lst.length) (hl : i < labels.length) (v : Val)
    (hk : cin[k]? = some (some v))
    (hv : (g.lst.filter (neNan s.strNan)).find? (fun l => leVal v l) = some g.lst[i]) :
    ∃ cout, aget? out f = some cout ∧ cout[k]? = some (nanFix s f (some labels[i])) := by
  obtain ⟨_, hspec⟩ := transform_spec s hs x0 x out hc htr
  obtain ⟨cout, hct, hout⟩ := (hspec f).1 cin hcin
  refine ⟨cout, hout, ?_⟩
  unfold colTransform at hct
  simp only [hf, if_true, hnq, if_false] at hct
  cases hqu : qUpd s f cin with
  | error e => rw [hqu] at hct; cases hct
  | ok c1 =>
    rw [hqu] at hct
    simp only [Except.bind] at hct
    have hc1 : c1[k]? = some (some labels[i]) := by
      unfold qUpd at hqu
      simp only [hg, ht] at hqu
      exact transformQuantCol_member f g hwf labels s.strNan cin c1 hqu k i hi hl v hk hv
    unfold nanFix
    cases hfd : s.featDropna.find? (fun fd => fd.1 = f) with
    | none =>
      rw [hfd] at hct; simp only [] at hct
      injection hct with hct; subst hct
      simpa using hc1
    | some fd =>
      rw [hfd] at hct; simp only [] at hct
      rw [nUpd_eq_map s fd c1 cout hct]
      simp [List.getElem?_map, hc1]

end C04
