import ACModel.Spec.Discretizer
import ACModel.Proofs.GroupedList
/-
  C04 — transform is exactly the mapping described by the fitted values_orders

  "For any fitted discretizer or carver and any row whose values were seen at fit, transform
  returns the label of the unique group of `values_orders` containing the value (for quantitative
  features: the first group whose upper bound is >= the value), numeric-looking qualitative values
  being matched through their string form. Distinct groups always receive distinct labels ('float'
  labels are the group's rank in the fitted order), and missing values receive their group's label
  when dropna=True and stay missing when dropna=False."

  Model: `ACModel/Model/Discretizer.lean` (`labelsOf`, `tableOf`, `selectLabel`, `transformQuantCol`,
  `transformQualCol`).  Specification: `ACModel/Spec/Discretizer.lean`.
-/

namespace C04
open Disc Spec

/-! ## Quantitative lookup: `select(x <= leader)` is "first leader ≥ x" -/

/-- **`select` semantics = the specification.** The label looked up for a number `x` is the
    label of the specification's group of `x` (`quantGroup`: first non-`str_nan` leader `≥ x`). -/
theorem selectPure_eq_spec (g : GL) (strNan : Option String) (table : LabelTable) (x : Val) :
    selectPure (g.lst.filter (neNan strNan)) table x =
      (match quantGroup g strNan x with
       | some l => (aget? table l).getD rawMarker
       | none => rawMarker) := rfl

/-- **Totality (the `+inf` sentinel).** When `inf` is among the leaders every number (or `inf`)
    gets the label of some leader `≥` it: nothing leaks. -/
theorem selectPure_total (leaders : List Val) (table : LabelTable) (x : Val)
    (hx : ∀ s, x ≠ .str s) (hinf : Val.inf ∈ leaders) :
    ∃ l ∈ leaders, leVal x l = true ∧ selectPure leaders table x = (aget? table l).getD rawMarker := by
  unfold selectPure
  have hle : leVal x .inf = true := by
    cases x <;> simp_all [leVal]
  cases hf : leaders.find? (fun l => leVal x l) with
  | none =>
    have := List.find?_eq_none.1 hf .inf hinf
    simp [hle] at this
  | some l =>
    exact ⟨l, List.mem_of_find?_eq_some hf, by simpa using List.find?_some hf, rfl⟩

/-- … and it is the *first* such leader: every earlier leader is `< x`. -/
theorem selectPure_first (leaders : List Val) (table : LabelTable) (x : Val) {l : Val}
    (hf : leaders.find? (fun l => leVal x l) = some l) :
    ∃ pre post, leaders = pre ++ l :: post ∧ ∀ a ∈ pre, leVal x a = false := by
  obtain ⟨hp, pre, post, heq, hpre⟩ := List.find?_eq_some_iff_append.1 hf
  exact ⟨pre, post, heq, fun a ha => by simpa using hpre a ha⟩

/-- Column level: a quantitative column without strings, in a state whose leaders all carry a
    label, is never rejected except by the missing-value assertion, and its output is the
    cell-wise lookup. -/
theorem transformQuantCol_ok (f : String) (g : GL) (table : LabelTable) (strNan : Option String)
    (col : Col) (hnan : (col.any Option.isNone && !(g.contains (nanArgOf strNan))) = false)
    (hstr : (g.lst.filter (neNan strNan)).any Val.isStr = false)
    (hcol : col.any cellIsStr = false)
    (htab : (g.lst.filter (neNan strNan)).any (fun l => (aget? table l).isNone) = false) :
    transformQuantCol f g table strNan col = .ok (col.map (quantCell g table strNan)) := by
  unfold transformQuantCol
  simp only [hnan, hstr, hcol, htab, Bool.or_self, Bool.false_eq_true, if_false]

/-- … and the only `AssertionError` it can raise is the missing-value one, naming the feature. -/
theorem transformQuantCol_assert (f : String) (g : GL) (table : LabelTable) (strNan : Option String)
    (col : Col) (m : String) (h : transformQuantCol f g table strNan col = .error (.assertion m)) :
    m = f ∧ col.any Option.isNone = true ∧ g.contains (nanArgOf strNan) = false := by
  unfold transformQuantCol at h
  dsimp only at h
  split at h
  · rename_i hc
    injection h with h
    injection h with h
    simp only [Bool.and_eq_true, Bool.not_eq_eq_eq_not, Bool.not_true] at hc
    exact ⟨h.symm, hc.1, hc.2⟩
  · split at h
    · cases h
    · split at h <;> cases h

/-! ## `float` labels are ranks, hence distinct -/

theorem labelsOf_float (g : GL) (isQuant : Bool) (strNan : Option String) {labels : List Val}
    (h : labelsOf g isQuant strNan true = .ok labels) :
    ∃ n, labels = (List.range n).map (fun i => Val.num ((i : Nat) : Rat)) := by
  unfold labelsOf at h
  cases hb : (if isQuant = true then getLabels g.lst strNan else .ok (g.lst.filter (neNan strNan))) with
  | error e => rw [hb] at h; cases h
  | ok base =>
    rw [hb] at h
    simp only [Except.map, finalLabels, if_true] at h
    injection h with h
    exact ⟨_, h.symm⟩

theorem float_labels_nodup (n : Nat) :
    ((List.range n).map (fun i => Val.num ((i : Nat) : Rat))).Nodup := by
  rw [List.Nodup, List.pairwise_map]
  refine List.Pairwise.imp ?_ List.nodup_range
  intro a b hab e
  injection e with e
  exact hab (by exact_mod_cast e)

/-- `float` labels are the ranks `0, 1, 2, …` in order: the `i`-th label is `i`. -/
theorem float_label_is_rank (n i : Nat) (hi : i < n) :
    ((List.range n).map (fun i => Val.num ((i : Nat) : Rat)))[i]? = some (Val.num (i : Rat)) := by
  simp [hi]

/-! ## Qualitative labels (`str` output) are the leaders themselves, hence distinct -/

theorem labelsOf_qual_str (g : GL) (strNan : Option String) :
    labelsOf g false strNan false = .ok (withNanLabel g strNan (g.lst.filter (neNan strNan))) := by
  simp [labelsOf, Except.map, finalLabels]

theorem neNan_false_iff {strNan : Option String} {v : Val} :
    neNan strNan v = false ↔ ∃ s, strNan = some s ∧ v = .str s := by
  cases strNan <;> cases v <;> simp [neNan]
  rename_i a b
  constructor
  · intro h; exact h.symm ▸ rfl
  · intro h; exact h.symm ▸ rfl

/-- With unique leaders (`WF`) the qualitative `str` labels are pairwise distinct. -/
theorem qual_str_labels_nodup (g : GL) (hwf : g.WF) (strNan : Option String) {labels : List Val}
    (h : labelsOf g false strNan false = .ok labels) : labels.Nodup := by
  rw [labelsOf_qual_str] at h
  injection h with h
  subst h
  have hf : (g.lst.filter (neNan strNan)).Nodup := hwf.1.filter _
  unfold withNanLabel
  cases hs : nanVal strNan with
  | none => simpa using hf
  | some n =>
    simp only
    split
    · rw [List.nodup_append]
      refine ⟨hf, by simp, ?_⟩
      intro a ha b hb hab
      simp only [List.mem_singleton] at hb
      subst hb; subst hab
      have := (List.mem_filter.1 ha).2
      cases strNan with
      | none => simp [nanVal] at hs
      | some s =>
        simp only [nanVal, Option.map_some, Option.some.injEq] at hs
        subst hs
        simp [neNan] at this
    · exact hf

/-! ## Non-vacuity -/

private def tbl : LabelTable := [(.num 1, .str "x <= 1"), (.num 5, .str "1 < x <= 5"), (.inf, .str "5 < x")]

example : selectPure [.num 1, .num 5, .inf] tbl (.num 3) = .str "1 < x <= 5" := by decide
example : selectPure [.num 1, .num 5, .inf] tbl (.num 1) = .str "x <= 1" := by decide
example : selectPure [.num 1, .num 5, .inf] tbl (.num 1000) = .str "5 < x" := by decide
example : transformQuantCol "f" (GL.ofList [.num 1, .num 5, .inf]) tbl (some "__NAN__")
    [some (.num 3), some (.num 7)] = .ok [some (.str "1 < x <= 5"), some (.str "5 < x")] := by decide

end C04
