import ACModel.Model.Update
import ACModel.Props.C13
import ACModel.Props.C04
/-
  C17 — Manual edits through update_discretizer are applied coherently

  "After any sequence of `update_discretizer` calls (mode 'group' or 'replace', on string, numeric
  or missing values) on a fitted object, transform maps the members of the discarded group to the
  kept group's label and leaves the grouping of all other rows unchanged, while 'replace' only
  renames a group. Labels, summary and the JSON round trip keep agreeing with transform after
  every edit."

  Model: `ACModel/Model/Update.lean`.  The theorems show that an edit (i) only touches the edited
  feature's order, (ii) keeps that order a well-formed partition — so that every C04/C05/C06/C13
  theorem, all stated for arbitrary well-formed states, applies again after every edit of a
  history —, (iii) is, for two existing leaders, exactly `GroupedList.group`, and (iv) refreshes
  the label table from the edited orders.
-/

namespace C17
open Disc GL

theorem aget_aset_same {α β : Type} [DecidableEq α] (l : List (α × β)) (k : α) (v : β) :
    aget? (aset l k v) k = some v := by
  induction l with
  | nil => simp [aset, aget?]
  | cons h t ih =>
    obtain ⟨k', v'⟩ := h
    by_cases hk : k' = k
    · simp [aset, aget?, hk]
    · simp [aset, aget?, hk, ih]

theorem aget_aset_other {α β : Type} [DecidableEq α] (l : List (α × β)) (k k' : α) (v : β)
    (h : k' ≠ k) : aget? (aset l k v) k' = aget? l k' := by
  induction l with
  | nil => simp [aset, aget?, Ne.symm h]
  | cons hd t ih =>
    obtain ⟨k'', v''⟩ := hd
    by_cases hk : k'' = k
    · subst hk
      simp [aset, aget?, Ne.symm h]
    · by_cases hk2 : k'' = k'
      · subst hk2
        simp [aset, aget?, hk]
      · simp [aset, aget?, hk, hk2, ih]

theorem glStep_WF {g g' : GL} {op : GL.Op} (h : g.WF) (hv : GL.Valid g op)
    (hs : glStep g op = .ok g') : g'.WF := by
  unfold glStep at hs
  have := GL.C13_step_WF h op hv
  split at hs
  · rename_i g'' heq
    injection hs with hs
    subst hs
    rw [heq] at this
    exact this
  · cases hs

theorem ensure_WF {g : GL} (h : g.WF) (v : Val) : (ensure g v).WF := by
  unfold ensure
  split
  · exact h
  · rename_i hc
    have hv : v ∉ g.values := by
      intro hm
      apply hc
      rw [GL.C13_contains_agrees]
      exact (GL.C13_values_agree g v).1 hm
    exact (GL.wf_iff _).2 (GL.append_WF' ((GL.wf_iff _).1 h) v hv)

/-- **(ii) An edit keeps the order a well-formed partition.** -/
theorem editOrder_WF {g g' : GL} (h : g.WF) (q : Bool) (sn : Option String) (mode : Mode) (d k : Val)
    (he : editOrder q sn g mode d k = .ok (some g')) : g'.WF := by
  unfold editOrder at he
  split at he
  · cases he
  · rename_i hng
    dsimp only at he
    have h1 := ensure_WF h k
    cases mode with
    | group =>
      simp only at he
      cases hs : editGroup q sn (ensure g k) d k with
      | error e => rw [hs] at he; cases he
      | ok o =>
        rw [hs] at he
        simp only [Except.map] at he
        injection he with he; injection he with he; subst he
        unfold editGroup at hs
        cases hg : glStep (ensure (ensure g k) d) (.group d k) with
        | error e => rw [hg] at hs; cases hs
        | ok o' =>
          rw [hg] at hs
          dsimp only at hs
          have ho' := glStep_WF (op := .group d k) (ensure_WF h1 d) trivial hg
          unfold keepLargest at hs
          split at hs
          · cases hgt : gtVal d k with
            | error e => rw [hgt] at hs; cases hs
            | ok b =>
              rw [hgt] at hs
              cases b with
              | false => injection hs with hs; subst hs; exact ho'
              | true =>
                dsimp only at hs
                have hne : k ≠ d := by
                  intro e; subst e
                  cases k <;> simp [gtVal] at hgt
                exact glStep_WF (op := .replaceLeader k d) ho' hne hs
          · injection hs with hs; subst hs; exact ho'
    | replace =>
      simp only at he
      cases hs : editReplace (ensure g k) d k with
      | error e => rw [hs] at he; cases he
      | ok o =>
        rw [hs] at he
        simp only [Except.map] at he
        injection he with he; injection he with he; subst he
        unfold editReplace at hs
        cases hg : glStep (ensure g k) (.group k d) with
        | error e => rw [hg] at hs; cases hs
        | ok o' =>
          rw [hg] at hs
          dsimp only at hs
          split at hs
          · cases hs
          · rename_i hgg
            have ho' := glStep_WF (op := .group k d) h1 trivial hg
            -- `replace_group_leader(d, k)` with `d ≠ k`: otherwise the edit was a no-op above
            by_cases hdk : d = k
            · subst hdk
              exfalso
              -- group d d is a no-op, so o' = ensure g d and getGroup d = d would have exited early
              have : o' = ensure g d := by
                unfold glStep at hg
                simp only [GL.step, GL.group, if_true] at hg
                injection hg with hg; exact hg.symm
              subst this
              have hgg' : (ensure g d).getGroup (.val d) = .val d := by simpa using hgg
              apply hng
              unfold ensure at hgg'
              split at hgg'
              · exact hgg'
              · rename_i hc
                apply GL.C13_getGroup_unknown
                intro hm
                apply hc
                rw [GL.C13_contains_agrees]
                exact (GL.C13_values_agree g d).1 hm
            · exact glStep_WF (op := .replaceLeader d k) ho' hdk hs

/-- decomposition of a successful edit -/
theorem update_ok_cases {s s' : Disc} {f : String} {mode : Mode} {d k : Arg}
    (h : s.update f mode d k = .ok s') :
    ∃ dv kv fd order, editArgs s f d k = .ok (dv, kv, fd) ∧ aget? s.orders f = some order ∧
      ((editOrder (decide (f ∈ s.quant)) s.strNan order mode dv kv = .ok none ∧ s' = { s with featDropna := fd }) ∨
       (∃ o2 t, editOrder (decide (f ∈ s.quant)) s.strNan order mode dv kv = .ok (some o2) ∧
          Disc.labelsPerValues { s with featDropna := fd, orders := aset s.orders f o2 } s.outFloat = .ok t ∧
          s' = { s with featDropna := fd, orders := aset s.orders f o2, lpv := t })) := by
  unfold Disc.update at h
  cases hargs : editArgs s f d k with
  | error e => rw [hargs] at h; cases h
  | ok r =>
    obtain ⟨dv, kv, fd⟩ := r
    rw [hargs] at h
    dsimp only at h
    cases ho : aget? s.orders f with
    | none => rw [ho] at h; cases h
    | some order =>
      rw [ho] at h
      dsimp only at h
      refine ⟨dv, kv, fd, order, rfl, rfl, ?_⟩
      cases he : editOrder (decide (f ∈ s.quant)) s.strNan order mode dv kv with
      | error e => rw [he] at h; cases h
      | ok r2 =>
        rw [he] at h
        cases r2 with
        | none =>
          dsimp only at h
          injection h with h
          exact Or.inl ⟨rfl, h.symm⟩
        | some o2 =>
          dsimp only at h
          unfold refreshLabels at h
          cases hl : Disc.labelsPerValues { s with featDropna := fd, orders := aset s.orders f o2 } s.outFloat with
          | error e =>
            rw [show ({ s with featDropna := fd, orders := aset s.orders f o2 } : Disc).outFloat = s.outFloat from rfl] at h
            rw [hl] at h; cases h
          | ok t =>
            rw [show ({ s with featDropna := fd, orders := aset s.orders f o2 } : Disc).outFloat = s.outFloat from rfl] at h
            rw [hl] at h
            simp only [Except.map] at h
            injection h with h
            exact Or.inr ⟨o2, t, rfl, hl, h.symm⟩

/-- **(i) Frame condition.** An edit leaves the orders of every other feature untouched. -/
theorem update_other_feature (s s' : Disc) (f f' : String) (mode : Mode) (d k : Arg)
    (h : s.update f mode d k = .ok s') (hne : f' ≠ f) : aget? s'.orders f' = aget? s.orders f' := by
  obtain ⟨dv, kv, fd, order, _, _, hc⟩ := update_ok_cases h
  rcases hc with ⟨_, hs⟩ | ⟨o2, t, _, _, hs⟩
  · subst hs; rfl
  · subst hs; exact aget_aset_other _ _ _ _ hne

/-- **(ii′) State level.** If every order was well formed before a successful edit, every order is
    well formed after it: the hypotheses of the C04 / C05 / C06 theorems are re-established, so
    they hold after every edit of any history (induction over the edit list is immediate). -/
theorem update_WF (s s' : Disc) (f : String) (mode : Mode) (d k : Arg)
    (hwf : ∀ f' g, aget? s.orders f' = some g → g.WF)
    (h : s.update f mode d k = .ok s') : ∀ f' g, aget? s'.orders f' = some g → g.WF := by
  intro f' g' hg'
  by_cases hne : f' = f
  · subst hne
    obtain ⟨dv, kv, fd, order, _, horder, hc⟩ := update_ok_cases h
    rcases hc with ⟨_, hs⟩ | ⟨o2, t, hedit, _, hs⟩
    · subst hs; exact hwf _ _ hg'
    · subst hs
      simp only [aget_aset_same] at hg'
      injection hg' with hg'; subst hg'
      exact editOrder_WF (hwf _ _ horder) _ _ mode _ _ hedit
  · rw [update_other_feature s s' f f' mode d k h hne] at hg'
    exact hwf _ _ hg'

/-- … hence after any history of successful edits (induction over the edit list). -/
theorem updates_WF (edits : List (String × Mode × Arg × Arg)) :
    ∀ (s s' : Disc), (∀ f' g, aget? s.orders f' = some g → g.WF) →
      edits.foldlM (fun st e => st.update e.1 e.2.1 e.2.2.1 e.2.2.2) s = .ok s' →
      ∀ f' g, aget? s'.orders f' = some g → g.WF := by
  induction edits with
  | nil =>
    intro s s' hwf h
    simp only [List.foldlM, pure, Except.pure] at h
    injection h with h; subst h; exact hwf
  | cons e rest ih =>
    intro s s' hwf h
    simp only [List.foldlM, bind, Except.bind] at h
    cases h1 : s.update e.1 e.2.1 e.2.2.1 e.2.2.2 with
    | error err => rw [h1] at h; cases h
    | ok s1 =>
      rw [h1] at h
      exact ih s1 s' (update_WF s s1 _ _ _ _ hwf h1) h

/-- **(iii) Grouping two existing, distinct leaders is exactly `GroupedList.group`.** -/
theorem editOrder_group_leaders {g : GL} (h : g.WF) (sn : Option String) {d k : Val} (hd : d ∈ g.lst)
    (hk : k ∈ g.lst) (hdk : d ≠ k) : editOrder false sn g .group d k = .ok (some (g.group d k).1) := by
  have hkc : k ∈ g.content.keys := h.2.2.1 k hk
  have hdc : d ∈ g.content.keys := h.2.2.1 d hd
  obtain ⟨vk, hvk⟩ := Dict.mem_keys.1 hkc
  obtain ⟨vd, hvd⟩ := Dict.mem_keys.1 hdc
  have hself_d : d ∈ vd := h.2.2.2.2.2 _ hvd
  have hself_k : k ∈ vk := h.2.2.2.2.2 _ hvk
  have hgd : g.getGroup (.val d) = .val d := GL.C13_getGroup_agrees h hvd hself_d
  have hck : g.contains (.val k) = true := (GL.C13_contains_agrees g k).2 ⟨_, hvk, hself_k⟩
  have hcd : g.contains (.val d) = true := (GL.C13_contains_agrees g d).2 ⟨_, hvd, hself_d⟩
  unfold editOrder
  have : ¬ (g.getGroup (.val d) = .val k) := by
    rw [hgd]; intro e; injection e with e; exact hdk e
  simp only [this, if_false, ensure, hck, hcd, if_true, editGroup, keepLargest, Bool.false_and]
  -- the step cannot raise: both are in the list
  unfold glStep
  simp only [GL.step]
  cases hg : g.group d k with
  | mk g' e =>
    cases e with
    | none => simp [Except.map]
    | some e =>
      exfalso
      have := GL.C13_error_keeps_state_group h d k (e := e) (by rw [hg])
      obtain ⟨_, m, hm⟩ := this
      -- an assertion error is impossible: both leaders are in the list
      unfold GL.group at hg
      simp only [hdk, hd, hk, if_false, not_true_eq_false] at hg
      rw [(Dict.get?_eq_some h.2.1).2 hvd, (Dict.get?_eq_some h.2.1).2 hvk] at hg
      simp only at hg
      unfold GL.remove at hg
      have hkeys : Dict.keys ((g.content.set k (vd ++ vk)).set d []) = Dict.keys g.content := by
        rw [Dict.keys_set, Dict.keys_set]; simp [hkc, hdc]
      have hc : ((g.content.set k (vd ++ vk)).set d []).contains d = true := by
        rw [Dict.contains_iff, hkeys]; exact hdc
      simp [hd, hc] at hg

/-- **(iv)** after a successful edit that changed something, the label table is the one computed
    from the edited orders -/
theorem update_refreshes_labels (s s' : Disc) (f : String) (mode : Mode) (d k : Arg)
    (h : s.update f mode d k = .ok s') :
    s'.lpv = s.lpv ∨ s'.labelsPerValues s'.outFloat = .ok s'.lpv := by
  obtain ⟨dv, kv, fd, order, _, _, hc⟩ := update_ok_cases h
  rcases hc with ⟨_, hs⟩ | ⟨o2, t, _, hl, hs⟩
  · subst hs; exact Or.inl rfl
  · subst hs; exact Or.inr hl

/-! ## What a `group` edit does to the groups (through the reference model of C13) -/

theorem get?_set_same : ∀ (s : Dict) (k : Val) (vs : List Val), Dict.get? (Dict.set s k vs) k = some vs := by
  intro s
  induction s with
  | nil => intro k vs; simp [Dict.set, Dict.get?]
  | cons kv t ih =>
    intro k vs
    obtain ⟨k', vs'⟩ := kv
    by_cases h : k' = k
    · simp [Dict.set, Dict.get?, h]
    · simp [Dict.set, Dict.get?, h, ih]

theorem get?_set_other : ∀ (s : Dict) (k l : Val) (vs : List Val), l ≠ k → Dict.get? (Dict.set s k vs) l = Dict.get? s l := by
  intro s
  induction s with
  | nil => intro k l vs h; simp [Dict.set, Dict.get?, Ne.symm h]
  | cons kv t ih =>
    intro k l vs h
    obtain ⟨k', vs'⟩ := kv
    by_cases hk : k' = k
    · subst hk
      have hne : ¬ k' = l := fun e => h e.symm
      simp only [Dict.set, if_true, Dict.get?, hne, if_false]
    · by_cases hl : k' = l
      · subst hl
        simp only [Dict.set, hk, if_false, Dict.get?, if_true]
      · simp only [Dict.set, hk, if_false, Dict.get?, hl, ih k l vs h]

theorem get?_filter_ne : ∀ (s : Dict) (d l : Val), l ≠ d →
    Dict.get? (s.filter (fun kv => kv.1 ≠ d)) l = Dict.get? s l := by
  intro s
  induction s with
  | nil => intro d l _; rfl
  | cons kv t ih =>
    intro d l h
    obtain ⟨k', vs'⟩ := kv
    by_cases hd : k' = d
    · subst hd
      have hne : ¬ k' = l := fun e => h e.symm
      have hfl : List.filter (fun kv : Val × List Val => decide (kv.1 ≠ k')) ((k', vs') :: t) =
          List.filter (fun kv : Val × List Val => decide (kv.1 ≠ k')) t := by
        simp [List.filter_cons]
      rw [hfl]
      simp only [Dict.get?, hne, if_false]
      exact ih k' l h
    · have hfl : List.filter (fun kv : Val × List Val => decide (kv.1 ≠ d)) ((k', vs') :: t) =
          (k', vs') :: List.filter (fun kv : Val × List Val => decide (kv.1 ≠ d)) t := by
        simp [List.filter_cons, hd]
      rw [hfl]
      by_cases hl : k' = l
      · subst hl; simp only [Dict.get?, if_true]
      · simp only [Dict.get?, hl, if_false]
        exact ih d l h

/-- **`group` merges the discarded group into the kept one**: afterwards the kept leader's group
    is the members of the discarded group followed by its own. -/
theorem group_merges_members {g : GL} (h : g.WF) {d k : Val} (hd : d ∈ g.lst) (hk : k ∈ g.lst) (hdk : d ≠ k) :
    (g.group d k).1.get k = g.get d ++ g.get k := by
  have h' := (GL.wf_iff g).1 h
  have hwf2 : (g.group d k).1.WF' := GL.group_WF' h' d k
  rw [← GL.members_abs hwf2 k, GL.abs_group h' d k]
  unfold RefGL.group
  have hl : RefGL.leaders (GL.abs g) = g.lst := GL.leaders_abs g
  simp only [hdk, hl, hd, hk, not_true_eq_false, or_self, if_false]
  unfold RefGL.members
  rw [get?_filter_ne _ d k (Ne.symm hdk), get?_set_same]
  simp only [Option.getD_some]
  have e1 := GL.members_abs h' d
  have e2 := GL.members_abs h' k
  unfold RefGL.members at e1 e2
  rw [e1, e2]

/-- … and leaves every other group as it was. -/
theorem group_keeps_other_groups {g : GL} (h : g.WF) {d k l : Val} (hd : d ∈ g.lst) (hk : k ∈ g.lst) (hdk : d ≠ k)
    (hld : l ≠ d) (hlk : l ≠ k) : (g.group d k).1.get l = g.get l := by
  have h' := (GL.wf_iff g).1 h
  have hwf2 : (g.group d k).1.WF' := GL.group_WF' h' d k
  rw [← GL.members_abs hwf2 l, GL.abs_group h' d k]
  unfold RefGL.group
  have hl : RefGL.leaders (GL.abs g) = g.lst := GL.leaders_abs g
  simp only [hdk, hl, hd, hk, not_true_eq_false, or_self, if_false]
  unfold RefGL.members
  rw [get?_filter_ne _ d l hld, get?_set_other _ k l _ hlk]
  have e1 := GL.members_abs h' l
  unfold RefGL.members at e1
  exact e1

/-- **After `group d k` the members of the discarded group carry the kept group's label** (and so
    do the kept group's own members): whatever position `i` the kept leader has in the edited order,
    every such value is transformed into the `i`-th label.  With `C04.transform_seen_qual` this is
    the statement about `transform` on whole frames; `group_keeps_other_groups` is the statement
    that the grouping of all other values is unchanged. -/
theorem group_edit_label {g : GL} (h : g.WF) {d k : Val} (hd : d ∈ g.lst) (hk : k ∈ g.lst) (hdk : d ≠ k)
    (labels : List Val) (strNan strDefault : Option String) (i : Nat) (hi : i < (g.group d k).1.lst.length)
    (hl : i < labels.length) (hik : (g.group d k).1.lst[i] = k) (v : Val) (hv : v ∈ g.get d ∨ v ∈ g.get k) :
    Disc.qualCell (Disc.tableOf (g.group d k).1 labels) (Disc.qualPrepared (g.group d k).1 strNan strDefault (some v)) =
      some labels[i] := by
  have hwf2 : (g.group d k).1.WF := (GL.wf_iff _).2 (GL.group_WF' ((GL.wf_iff g).1 h) d k)
  apply C04.qualCell_member (g.group d k).1 hwf2 labels strNan strDefault i hi hl v
  rw [hik, group_merges_members h hd hk hdk]
  exact List.mem_append.2 hv

/-! ## Non-vacuity -/
private def g0 : GL := GL.ofList [.str "a", .str "b", .str "c"]
example : editOrder false none g0 .group (.str "a") (.str "b") =
    .ok (some ⟨[.str "b", .str "c"], [(.str "b", [.str "a", .str "b"]), (.str "c", [.str "c"])]⟩) := by decide
example : editOrder false none g0 .replace (.str "a") (.str "new") =
    .ok (some ⟨[.str "new", .str "b", .str "c"], [(.str "b", [.str "b"]), (.str "c", [.str "c"]), (.str "new", [.str "new", .str "a"])]⟩) := by
  decide
example : g0.WF := by decide
-- grouping the `inf` bucket into the previous quantile keeps `inf` as the leader
example : editOrder true (some "__NAN__") (GL.ofList [.num 3, .num 9, .inf]) .group .inf (.num 9) =
    .ok (some ⟨[.num 3, .inf], [(.num 3, [.num 3]), (.inf, [.inf, .num 9])]⟩) := by decide

end C17
