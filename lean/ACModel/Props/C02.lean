import ACModel.Props.C01
import ACModel.Proofs.Rows
import ACModel.Props.C04
import ACModel.Proofs.Groups
/-
  C02 — Carved features respect max_n_mod, min_freq_mod and dev robustness

  "After fit, transforming the training data gives for every kept feature at most max_n_mod
  distinct non-missing labels, each carried by at least min_freq_mod of the rows (of the
  non-missing rows when dropna=False), with no missing output when dropna=True and missing values
  preserved in place when dropna=False. When X_dev/y_dev were supplied, transforming X_dev yields
  the same label set, each label again at least min_freq_mod frequent, and ranking labels by target
  rate (mean of y) gives the same order on both samples."

  These are consequences of C01's search: whatever candidate wins is a member of the enumerated
  set (hence has at most `max_n_mod` groups) and passed the viability test (hence the frequency,
  distinct-rate and rank conditions on both samples).
-/

namespace C02
open Comb Carve C01

/-- every candidate handed to the search carries the measure and viability of its combination -/
theorem mem_candidates {cfg : Cfg} {train : Table} {dev : Option (List (String × Row))}
    {combs : List (List (List String))} {c : Cand} (h : c ∈ candidates cfg train dev combs) :
    c.comb ∈ combs ∧ c.v = viability cfg train.rows dev c.comb := by
  unfold candidates at h
  obtain ⟨comb, hc, rfl⟩ := List.mem_map.1 h
  exact ⟨hc, rfl⟩

/-- **At most `max_n_mod` groups (stage 1).** -/
theorem stage1_group_count (cfg : Cfg) (train : Table) (dev : Option (List (String × Row)))
    (labels : List String) (ws : List Cand) (dropOk : Bool)
    (h : search (candidates cfg train dev (consecutiveCombinations labels cfg.maxNMod)) 0 = .best ws dropOk) :
    ∀ w ∈ ws, 2 ≤ w.comb.length ∧ w.comb.length ≤ cfg.maxNMod ∧ IsCut labels w.comb := by
  intro w hw
  obtain ⟨hc, _, _⟩ := search_best_sound _ ws dropOk h w hw
  obtain ⟨hcomb, _⟩ := mem_candidates hc
  obtain ⟨h1, h2, h3⟩ := (consecutiveCombinations_iff labels cfg.maxNMod w.comb).1 hcomb
  exact ⟨h2, h3, h1⟩

/-- **At most `max_n_mod` groups, the missing-value group included (stage 2).** -/
theorem stage2_group_count (cfg : Cfg) (train : Table) (dev : Option (List (String × Row)))
    (leaders : List String) (nan : String) (ws : List Cand) (dropOk : Bool)
    (h : search (candidates cfg train dev (nanCombinations leaders nan cfg.maxNMod)) 0 = .best ws dropOk) :
    ∀ w ∈ ws, w.comb.length ≤ cfg.maxNMod := by
  intro w hw
  obtain ⟨hc, _, _⟩ := search_best_sound _ ws dropOk h w hw
  obtain ⟨hcomb, _⟩ := mem_candidates hc
  exact nanCombinations_length leaders nan cfg.maxNMod w.comb hcomb

/-- what viability of a combination means, unfolded -/
theorem viable_train {cfg : Cfg} {train : List (String × Row)} {dev : Option (List (String × Row))}
    {comb : List (List String)} (h : (viability cfg train dev comb).viable = true) :
    minFreqOk cfg ((grouper cfg train comb).map (·.2)) = true ∧
    distinctRates ((grouper cfg train comb).map (·.2)) = true := by
  unfold viability at h
  dsimp only at h
  cases dev with
  | none =>
    simp only [Viab.viable, Bool.and_eq_true] at h
    exact ⟨h.1.1, h.1.2⟩
  | some d =>
    dsimp only at h
    split at h
    · rename_i hntv
      simp only [Viab.viable] at h
      simp_all
    · simp only [Viab.viable, Bool.and_eq_true] at h
      exact ⟨h.1.1, h.1.2⟩

/-- an oracle answer is only used where the rank test is open: a passed test is always a possible one -/
theorem resolveRanks_possible {cfg : Cfg} {gt gd : List (String × Row)} (h : (resolveRanks cfg gt gd).1 = true) :
    ranksPossible gt gd = true := by
  unfold resolveRanks at h
  dsimp only at h
  split at h
  · rename_i hc
    simp only [Bool.and_eq_true] at hc
    exact hc.1
  · exact h

/-- **Dev robustness.** A viable combination tested against a dev sample satisfies on it the
    frequency bound, has every group observed (so that transforming the dev sample yields the same
    label set, whatever `min_freq_mod`), has distinct consecutive rates, and ranks the groups
    compatibly with train. -/
theorem viable_dev {cfg : Cfg} {train d : List (String × Row)} {comb : List (List String)}
    (h : (viability cfg train (some d) comb).viable = true) :
    (minFreqOk cfg ((grouper cfg d comb).map (·.2)) = true ∧
      (freqs ((grouper cfg d comb).map (·.2))).all (fun f => decide (0 < f)) = true) ∧
    distinctRates ((grouper cfg d comb).map (·.2)) = true ∧
    ranksPossible (grouper cfg train comb) (grouper cfg d comb) = true := by
  unfold viability at h
  dsimp only at h
  split at h
  · rename_i hntv
    simp only [Viab.viable] at h
    simp_all
  · simp only [Viab.viable, Bool.and_eq_true, Bool.not_true, Bool.false_or] at h
    obtain ⟨_, ⟨hr, hm⟩, hd⟩ := h
    exact ⟨hm, hd, resolveRanks_possible hr⟩

/-- **Every group of the fitted grouping holds at least `min_freq_mod` of the rows** of the
    table the search ran on (non-missing rows in stage 1, all rows in stage 2). -/
theorem winner_min_freq (cfg : Cfg) (train : Table) (dev : Option (List (String × Row)))
    (combs : List (List (List String))) (ws : List Cand) (dropOk : Bool)
    (h : search (candidates cfg train dev combs) 0 = .best ws dropOk) :
    ∀ w ∈ ws, ∀ f ∈ freqs ((grouper cfg train.rows w.comb).map (·.2)), cfg.minFreqMod ≤ f := by
  intro w hw f hf
  obtain ⟨hc, hv, _⟩ := search_best_sound _ ws dropOk h w hw
  obtain ⟨_, hveq⟩ := mem_candidates hc
  rw [hveq] at hv
  have := (viable_train hv).1
  unfold minFreqOk at this
  rw [List.all_eq_true] at this
  simpa using this f hf


/-! ## From the table to the rows of the transformed training column

The search works on a per-modality table; C02 speaks of the rows that `transform` labels.  The two
are tied here: when the table counts the rows of the training column (`Counts`, what
`_aggregator` computes; the harness evaluates it on the tables it hands to the model), the `i`-th
group of the fitted grouping holds exactly the rows that come out with the `i`-th label (C04:
`transform_seen_qual` / `_quant` send a row to the label of the group holding its value, distinct
groups having distinct labels), so the frequency test passed by the winner is a statement about
the output column. -/
open RowLemmas

/-- the table counts the rows of a column of modalities, and none of its rows is the NaN row of a
    modality absent from the sample (train tables never have one) -/
def Counts (t : List (String × Row)) (col : List String) : Prop :=
  ∀ l, (lookupRow t l).n = col.count l ∧ (lookupRow t l).poison = false

/-- the grouping a fitted feature ends with: pairwise disjoint, non-empty groups covering the column -/
structure Covers (comb : List (List String)) (col : List String) : Prop where
  nodup : comb.flatten.Nodup
  nonempty : ∀ g ∈ comb, g ≠ []
  cover : ∀ v ∈ col, v ∈ comb.flatten

theorem grouper_rows (cfg : Cfg) (hns : cfg.sortGroupsByLabel = false) (t : List (String × Row)) :
    ∀ (comb : List (List String)), (∀ g ∈ comb, g ≠ []) →
    (grouper cfg t comb).map (·.2) = comb.map (groupRow t) := by
  intro comb hne
  unfold grouper
  simp only [hns, Bool.false_eq_true, if_false]
  induction comb with
  | nil => rfl
  | cons g rest ih =>
    have ih := ih (fun g' hg' => hne g' (List.mem_cons_of_mem _ hg'))
    cases g with
    | nil => exact absurd rfl (hne [] (List.mem_cons_self ..))
    | cons l tl => simp only [List.filterMap_cons, List.map_cons, ih, groupRow]

/-- the row of the `i`-th group counts the rows of the column that `transform` sends to the `i`-th label -/
theorem group_row_counts (t : List (String × Row)) (col : List String) (comb : List (List String))
    (hc : Counts t col) (hcov : Covers comb col) (i : Nat) (hi : i < comb.length) :
    (groupRow t comb[i]).n = (col.map (groupIdx comb)).count i ∧
    (groupRow t comb[i]).poison = false := by
  unfold groupRow
  constructor
  · rw [fold_rows_n, count_groupIdx col comb hcov.nodup i hi]
    have hnd : comb[i].Nodup := nodup_of_mem_flatten comb hcov.nodup _ (List.getElem_mem _)
    rw [← sum_count_eq_countP col comb[i] hnd]
    simp only [Row.zero, Nat.zero_add]
    congr 1
    apply List.map_congr_left
    intro x _
    exact (hc x).1
  · rw [fold_rows_poison]
    simp only [Row.zero, Bool.false_or]
    rw [List.any_eq_false]
    intro x _
    simp [(hc x).2]

/-- the frequencies `_test_viability` looks at are the shares of the rows that `transform` sends to each label -/
theorem freqs_rows (cfg : Cfg) (hns : cfg.sortGroupsByLabel = false) (t : List (String × Row))
    (col : List String) (comb : List (List String)) (hc : Counts t col) (hcov : Covers comb col) :
    freqs ((grouper cfg t comb).map (·.2)) = (List.range comb.length).map (fun i =>
      if col.length == 0 then (0 : Rat) else (((col.map (groupIdx comb)).count i : Nat) : Rat) / ((col.length : Nat) : Rat)) := by
  rw [grouper_rows cfg hns t comb hcov.nonempty]
  have hrows : ∀ j (hj : j < comb.length),
      ((comb.map (groupRow t))[j]'(by simpa using hj)).n = (col.map (groupIdx comb)).count j ∧
      ((comb.map (groupRow t))[j]'(by simpa using hj)).poison = false := by
    intro j hj
    rw [List.getElem_map]
    exact group_row_counts t col comb hc hcov j hj
  have hnop : ∀ r ∈ comb.map (groupRow t), r.poison = false := by
    intro r hr
    obtain ⟨j, hj, rfl⟩ := List.getElem_of_mem hr
    exact (hrows j (by simpa using hj)).2
  have htot : (((comb.map (groupRow t)).filter (fun r => !r.poison)).map (·.n)).foldl (· + ·) 0
      = col.length := by
    rw [List.filter_eq_self.2 (fun r hr => by simp [hnop r hr]), foldl_add_nat, Nat.zero_add, List.map_map]
    rw [← sum_countP_groups col comb hcov.nodup hcov.cover]
    congr 1
    apply List.map_congr_left
    intro g hg
    obtain ⟨j, hj, rfl⟩ := List.getElem_of_mem hg
    have := (hrows j hj).1
    rw [List.getElem_map, count_groupIdx col comb hcov.nodup j hj] at this
    exact this
  unfold freqs
  rw [htot]
  apply List.ext_getElem
  · simp
  · intro i h1 h2
    have hi : i < comb.length := by simpa using h1
    obtain ⟨hn, hp⟩ := hrows i hi
    simp only [List.getElem_map, List.getElem_range] at hn hp ⊢
    rw [hp, hn]
    simp

/-- **Every label of the transformed training column is carried by at least `min_freq_mod` of its rows**:
    for a grouping that passed the frequency test of `_test_viability` on a table counting the rows of `col`,
    the number of rows whose value lies in the `i`-th group (the rows `transform` gives the `i`-th label)
    is at least `min_freq_mod · len(col)`, for every group. -/
theorem fitted_groups_frequent (cfg : Cfg) (hns : cfg.sortGroupsByLabel = false) (t : List (String × Row))
    (col : List String) (comb : List (List String)) (hc : Counts t col) (hcov : Covers comb col)
    (hmf : minFreqOk cfg ((grouper cfg t comb).map (·.2)) = true) :
    ∀ i, i < comb.length → cfg.minFreqMod * ((col.length : Nat) : Rat) ≤ (((col.map (groupIdx comb)).count i : Nat) : Rat) := by
  intro i hi
  unfold minFreqOk at hmf
  rw [freqs_rows cfg hns t col comb hc hcov, List.all_eq_true] at hmf
  have hmem := hmf _ (List.mem_map.2 ⟨i, List.mem_range.2 hi, rfl⟩)
  simp only [decide_eq_true_eq] at hmem
  by_cases h0 : col.length = 0
  · have : col = [] := List.length_eq_zero_iff.1 h0
    subst this
    simp
  · have hb : (col.length == 0) = false := by simpa using h0
    rw [hb] at hmem
    simp only [Bool.false_eq_true, if_false] at hmem
    have hpos : (0 : Rat) ≤ ((col.length : Nat) : Rat) := by exact_mod_cast Nat.zero_le _
    have hne : ((col.length : Nat) : Rat) ≠ 0 := by exact_mod_cast h0
    have := Rat.mul_le_mul_of_nonneg_right hmem hpos
    rwa [Rat.div_mul_cancel hne] at this

/-- **Every label is present on the dev sample**: when the table of the dev sample counts the rows of the dev
    column, a grouping that passed the dev tests has, for every group, at least one dev row and at least
    `min_freq_mod` of the dev rows: transforming `X_dev` yields the same label set as transforming `X`. -/
theorem dev_rows (cfg : Cfg) (hns : cfg.sortGroupsByLabel = false) (train d : List (String × Row))
    (colDev : List String) (comb : List (List String)) (hc : Counts d colDev) (hcov : Covers comb colDev)
    (h : (viability cfg train (some d) comb).viable = true) :
    ∀ i, i < comb.length → 0 < (colDev.map (groupIdx comb)).count i ∧
      cfg.minFreqMod * ((colDev.length : Nat) : Rat) ≤ (((colDev.map (groupIdx comb)).count i : Nat) : Rat) := by
  intro i hi
  obtain ⟨⟨hmf, hpos⟩, _, _⟩ := viable_dev h
  refine ⟨?_, fitted_groups_frequent cfg hns d colDev comb hc hcov hmf i hi⟩
  rw [freqs_rows cfg hns d colDev comb hc hcov, List.all_eq_true] at hpos
  have hmem := hpos _ (List.mem_map.2 ⟨i, List.mem_range.2 hi, rfl⟩)
  simp only [decide_eq_true_eq] at hmem
  by_cases h0 : colDev.length = 0
  · have hb : (colDev.length == 0) = true := by simpa using h0
    rw [hb] at hmem
    simp at hmem
  · have hb : (colDev.length == 0) = false := by simpa using h0
    rw [hb] at hmem
    simp only [Bool.false_eq_true, if_false] at hmem
    apply Nat.pos_of_ne_zero
    intro hz
    rw [hz] at hmem
    have hz0 : (((0 : Nat) : Rat)) / ((colDev.length : Nat) : Rat) = 0 := by
      rw [Rat.div_def]; simp
    rw [hz0] at hmem
    exact absurd hmem (by decide)

/-- **At most as many labels as groups**: the transformed training column only holds group indices below the
    number of groups (which `stage1_group_count` / `stage2_group_count` bound by `max_n_mod`). -/
theorem fitted_labels_bounded (col : List String) (comb : List (List String)) (hcov : Covers comb col) :
    ∀ k ∈ col.map (groupIdx comb), k < comb.length := by
  intro k hk
  obtain ⟨v, hv, rfl⟩ := List.mem_map.1 hk
  exact groupIdx_lt comb v (hcov.cover v hv)

/-- a cut of distinct base labels covers every column made of these labels -/
theorem covers_of_cut {labels : List String} {comb : List (List String)} {col : List String}
    (hcut : IsCut labels comb) (hnd : labels.Nodup) (hcol : ∀ v ∈ col, v ∈ labels) : Covers comb col :=
  ⟨by rw [hcut.1]; exact hnd, hcut.2, by rw [hcut.1]; exact hcol⟩

/-- **Stage 1, on the rows.**  Whatever grouping the search over the consecutive groupings of distinct base labels
    returns, the transformed training column (rows ↦ index of the group holding their base label) has at most
    `max_n_mod` distinct values, each carried by at least `min_freq_mod` of the rows. -/
theorem stage1_rows (cfg : Cfg) (hns : cfg.sortGroupsByLabel = false) (train : Table) (dev : Option (List (String × Row)))
    (labels : List String) (hnd : labels.Nodup) (col : List String) (hcol : ∀ v ∈ col, v ∈ labels)
    (hc : Counts train.rows col) (ws : List Cand) (dropOk : Bool)
    (h : search (candidates cfg train dev (consecutiveCombinations labels cfg.maxNMod)) 0 = .best ws dropOk) :
    ∀ w ∈ ws, (∀ k ∈ col.map (groupIdx w.comb), k < cfg.maxNMod) ∧
      ∀ i, i < w.comb.length →
        cfg.minFreqMod * ((col.length : Nat) : Rat) ≤ (((col.map (groupIdx w.comb)).count i : Nat) : Rat) := by
  intro w hw
  obtain ⟨_, hle, hcut⟩ := stage1_group_count cfg train dev labels ws dropOk h w hw
  obtain ⟨hc', hv, _⟩ := search_best_sound _ ws dropOk h w hw
  obtain ⟨_, hveq⟩ := mem_candidates hc'
  rw [hveq] at hv
  have hcov := covers_of_cut hcut hnd hcol
  refine ⟨fun k hk => Nat.lt_of_lt_of_le (fitted_labels_bounded col w.comb hcov k hk) hle, ?_⟩
  exact fitted_groups_frequent cfg hns train.rows col w.comb hc hcov (viable_train hv).1

/-- a placement of the missing-value modality in a cut of distinct leaders covers every column made of these labels -/
theorem covers_of_nanPlacement {leaders : List String} {nan : String} {m : Nat} {comb : List (List String)} {col : List String}
    (hmem : comb ∈ nanCombinations leaders nan m) (hnd : (nan :: leaders).Nodup) (hcol : ∀ v ∈ col, v ∈ nan :: leaders) :
    Covers comb col := by
  obtain ⟨c0, ⟨hcut, _, _⟩, h⟩ := (nanCombinations_iff leaders nan m comb).1 hmem
  have hperm : comb.flatten.Perm (nan :: leaders) := by
    rcases h with ⟨n, hn, rfl⟩ | ⟨_, rfl⟩
    · have := addAt_flatten_perm nan n c0 hn
      rwa [hcut.1] at this
    · rw [List.flatten_append, hcut.1]
      simp only [List.flatten_cons, List.flatten_nil, List.append_nil]
      exact List.perm_append_comm
  refine ⟨hperm.nodup_iff.2 hnd, ?_, fun v hv => hperm.mem_iff.2 (hcol v hv)⟩
  rcases h with ⟨n, _, rfl⟩ | ⟨_, rfl⟩
  · exact addAt_nonempty nan n c0 hcut.2
  · intro g hg
    rcases List.mem_append.1 hg with hg | hg
    · exact hcut.2 g hg
    · simp only [List.mem_singleton] at hg; subst hg; simp

/-- **Stage 2, on the rows** (`dropna=True`: the missing values are given a group).  Whatever placement of the
    missing-value modality the second search returns, the transformed training column (rows ↦ index of the group holding
    their stage-1 leader, or the missing-value marker) has at most `max_n_mod` distinct values, none of them missing, each
    carried by at least `min_freq_mod` of all the rows. -/
theorem stage2_rows (cfg : Cfg) (hns : cfg.sortGroupsByLabel = false) (train : Table) (dev : Option (List (String × Row)))
    (leaders : List String) (nan : String) (hnd : (nan :: leaders).Nodup) (col : List String)
    (hcol : ∀ v ∈ col, v ∈ nan :: leaders) (hc : Counts train.rows col) (ws : List Cand) (dropOk : Bool)
    (h : search (candidates cfg train dev (nanCombinations leaders nan cfg.maxNMod)) 0 = .best ws dropOk) :
    ∀ w ∈ ws, (∀ k ∈ col.map (groupIdx w.comb), k < cfg.maxNMod) ∧
      ∀ i, i < w.comb.length →
        cfg.minFreqMod * ((col.length : Nat) : Rat) ≤ (((col.map (groupIdx w.comb)).count i : Nat) : Rat) := by
  intro w hw
  have hle := stage2_group_count cfg train dev leaders nan ws dropOk h w hw
  obtain ⟨hc', hv, _⟩ := search_best_sound _ ws dropOk h w hw
  obtain ⟨hmem, hveq⟩ := mem_candidates hc'
  rw [hveq] at hv
  have hcov := covers_of_nanPlacement hmem hnd hcol
  refine ⟨fun k hk => Nat.lt_of_lt_of_le (fitted_labels_bounded col w.comb hcov k hk) hle, ?_⟩
  exact fitted_groups_frequent cfg hns train.rows col w.comb hc hcov (viable_train hv).1

/-! ## … and the target rate that is ranked is the mean of the target over the rows of each label -/

/-- the table sums the target over the rows of each modality (the other half of what `_aggregator` computes) -/
def Sums (t : List (String × Row)) (col : List String) (y : List Rat) : Prop :=
  ∀ l, (lookupRow t l).s = sumWhere (fun c => c == l) col y

/-- mean of the target over the rows that `transform` sends to the `i`-th label (`none`: no such row) -/
def meanOfLabel (comb : List (List String)) (col : List String) (y : List Rat) (i : Nat) : Option Rat :=
  if (col.map (groupIdx comb)).count i == 0 then none
  else some (sumWhere (fun c => groupIdx comb c == i) col y / (((col.map (groupIdx comb)).count i : Nat) : Rat))

/-- **The target rates `_test_viability` compares and ranks are the means of the target over the rows of each output
    label** — on the train sample and, with the dev table and column, on the dev sample: the distinct-rate test and the
    train/dev rank test of `viable_train` / `viable_dev` speak of `groupby(label)[y].mean()` of the transformed samples. -/
theorem rates_rows (cfg : Cfg) (hns : cfg.sortGroupsByLabel = false) (t : List (String × Row))
    (col : List String) (y : List Rat) (comb : List (List String))
    (hc : Counts t col) (hs : Sums t col y) (hcov : Covers comb col) :
    (grouper cfg t comb).map (fun p => rate p.2) = (List.range comb.length).map (meanOfLabel comb col y) := by
  have hrows := grouper_rows cfg hns t comb hcov.nonempty
  have : (grouper cfg t comb).map (fun p => rate p.2) = ((grouper cfg t comb).map (·.2)).map rate := by
    rw [List.map_map]; rfl
  rw [this, hrows]
  apply List.ext_getElem
  · simp
  · intro i h1 _
    have hi : i < comb.length := by simpa using h1
    simp only [List.getElem_map, List.getElem_range]
    obtain ⟨hn, hp⟩ := group_row_counts t col comb hc hcov i hi
    have hsum : (groupRow t comb[i]).s = sumWhere (fun c => groupIdx comb c == i) col y := by
      unfold groupRow
      rw [fold_rows_s]
      simp only [Row.zero]
      have hnd : comb[i].Nodup := nodup_of_mem_flatten comb hcov.nodup _ (List.getElem_mem _)
      have h1 : (comb[i].map (fun x => (lookupRow t x).s)) = comb[i].map (fun x => sumWhere (fun c => c == x) col y) := by
        apply List.map_congr_left; intro x _; exact hs x
      rw [h1, sum_sumWhere_group col y comb[i] hnd]
      have h2 : sumWhere (fun c => comb[i].contains c) col y = sumWhere (fun c => groupIdx comb c == i) col y := by
        apply sumWhere_congr
        intro c _
        have := groupIdx_eq_iff comb i hi c hcov.nodup
        cases hcc : comb[i].contains c
        · have hv : c ∉ comb[i] := by simpa using hcc
          have hne : groupIdx comb c ≠ i := fun h => hv (this.1 h)
          simpa using hne
        · have hv : c ∈ comb[i] := by simpa using hcc
          simpa using this.2 hv
      rw [h2]
      grind
    unfold rate meanOfLabel
    rw [hp, hn, hsum]
    simp

/-- the rank test, on two vectors of rates: no pair of positions is strictly inverted between them -/
def noInversion (tr dr : List (Option Rat)) : Bool :=
  (pairs (tr.zip dr)).all (fun p =>
    !((rateLt p.1.1 p.2.1 && rateLt p.2.2 p.1.2) || (rateLt p.2.1 p.1.1 && rateLt p.1.2 p.2.2)))

theorem pairs_mapped {α β : Type} (f : α → β) : ∀ (l : List α), pairs (l.map f) = (pairs l).map (fun p => (f p.1, f p.2))
  | [] => rfl
  | x :: t => by
    simp only [List.map_cons, pairs, List.map_append, List.map_map, pairs_mapped f t]
    rfl

theorem ranksPossible_rates (t d : List (String × Row)) :
    ranksPossible t d = noInversion (t.map (fun p => rate p.2)) (d.map (fun p => rate p.2)) := by
  unfold ranksPossible noInversion
  rw [List.zip_map, pairs_mapped, List.all_map]
  rfl

/-- **Ranking the labels by target rate gives compatible orders on both samples**: for a grouping that passed the dev tests,
    with tables that count and sum the rows of the train and dev columns, no two labels are strictly inverted between the
    vector of `groupby(label)[y].mean()` of the transformed train sample and that of the transformed dev sample. -/
theorem dev_rank_rows (cfg : Cfg) (hns : cfg.sortGroupsByLabel = false) (train d : List (String × Row))
    (col colDev : List String) (y yDev : List Rat) (comb : List (List String))
    (hc : Counts train col) (hs : Sums train col y) (hcov : Covers comb col)
    (hcd : Counts d colDev) (hsd : Sums d colDev yDev) (hcovd : Covers comb colDev)
    (h : (viability cfg train (some d) comb).viable = true) :
    noInversion ((List.range comb.length).map (meanOfLabel comb col y))
      ((List.range comb.length).map (meanOfLabel comb colDev yDev)) = true := by
  obtain ⟨_, _, hr⟩ := viable_dev h
  rw [ranksPossible_rates, rates_rows cfg hns train col y comb hc hs hcov,
    rates_rows cfg hns d colDev yDev comb hcd hsd hcovd] at hr
  exact hr

/-! ## … and the group index is what `transform` outputs -/

/-- **The transformed column is the column of group indices, label by label**: for a fitted qualitative feature (order `g`,
    one label per group), every accepted row whose value belongs to a group comes out with the label whose position is the
    index of that group (`groupIdx` over the groups in fitted order) — the column `col.map (groupIdx comb)` of the
    frequency theorems above, read through the labels. -/
theorem transform_label_is_groupIdx (f : String) (g : GL) (hwf : g.WF) (labels : List Val) (strNan strDefault : Option String)
    (cin cout : Col) (h : Disc.transformQualCol f g (Disc.tableOf g labels) strNan strDefault cin = .ok cout)
    (hlen : labels.length = g.lst.length)
    (k : Nat) (v : Val) (hk : cin[k]? = some (some v)) (hv : v ∈ (g.lst.map g.get).flatten) :
    ∃ hi : groupIdx (g.lst.map g.get) v < labels.length,
      cout[k]? = some (some (labels[groupIdx (g.lst.map g.get) v]'hi)) := by
  have hnd := GroupLemmas.wf_groups_nodup g hwf
  have hlt := groupIdx_lt (g.lst.map g.get) v hv
  have hi : groupIdx (g.lst.map g.get) v < g.lst.length := by simpa using hlt
  have hmem := (groupIdx_eq_iff (g.lst.map g.get) _ hlt v hnd).1 rfl
  rw [List.getElem_map] at hmem
  refine ⟨by omega, ?_⟩
  exact C04.transformQualCol_member f g hwf labels strNan strDefault cin cout h k _ hi (by omega) v hk hmem

/-! ## Non-vacuity -/
private def t0 : List (String × Row) :=
  [("a", ⟨10, 1, 0, false⟩), ("b", ⟨10, 5, 0, false⟩), ("c", ⟨10, 9, 0, false⟩)]
private def cfg0 : Cfg := { kind := .binary, sortBy := .cramerv, minFreqMod := 1/10, maxNMod := 3, dropna := true }
example : (viability cfg0 t0 none [["a"], ["b", "c"]]).viable = true := by decide +kernel
example : (viability cfg0 t0 (some t0) [["a"], ["b"], ["c"]]).certain = true := by decide +kernel

private def col0 : List String := ["a", "b", "c", "c", "b", "a", "a", "c", "b", "b"]
private def t1 : List (String × Row) := [("a", ⟨3, 1, 0, false⟩), ("b", ⟨4, 2, 0, false⟩), ("c", ⟨3, 3, 0, false⟩)]
example : ∀ l ∈ ["a", "b", "c", "zz"], (lookupRow t1 l).n = col0.count l ∧ (lookupRow t1 l).poison = false := by decide
example : Covers [["a"], ["b", "c"]] col0 := ⟨by decide, by decide, by decide⟩
example : minFreqOk cfg0 ((grouper cfg0 t1 [["a"], ["b", "c"]]).map (·.2)) = true := by decide +kernel
example : col0.map (groupIdx [["a"], ["b", "c"]]) = [0, 1, 1, 1, 1, 0, 0, 1, 1, 1] := by decide

private def y0 : List Rat := [1, 0, 1, 1, 1, 0, 0, 1, 1, 0]
example : ∀ l ∈ ["a", "b", "c", "zz"], (lookupRow t1 l).s = sumWhere (fun c => c == l) col0 y0 := by decide +kernel
example : meanOfLabel [["a"], ["b", "c"]] col0 y0 0 = some (1 / 3) ∧ meanOfLabel [["a"], ["b", "c"]] col0 y0 1 = some (5 / 7) := by
  decide +kernel

end C02
