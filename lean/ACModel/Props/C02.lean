import ACModel.Props.C01
/-
  C02 — Carved features respect max_n_mod, min_freq_mod and dev robustness

  "After fit, transforming the training data gives for every kept feature at most max_n_mod
  distinct non-missing labels, each carried by at least min_freq_mod of the rows (of the
  non-missing rows when dropna=False), with no missing output when dropna=True and missing values
  preserved in place when dropna=False. When X_dev/y_dev were supplied, transforming X_dev yields
  the same label set, each label again at least min_freq_mod frequent, and ranking labels by target
  rate (mean of y) gives the same order on both samples."

  These are consequences of C01's search: whatever candidate wins is a member of the enumerated
  set (hence has at most `max_n_mod` groups) and passed the viability test (hence the frequency,
  distinct-rate and rank conditions on both samples).
-/

namespace C02
open Comb Carve C01

/-- every candidate handed to the search carries the measure and viability of its combination -/
theorem mem_candidates {cfg : Cfg} {train : Table} {dev : Option (List (String × Row))}
    {combs : List (List (List String))} {c : Cand} (h : c ∈ candidates cfg train dev combs) :
    c.comb ∈ combs ∧ c.v = viability cfg train.rows dev c.comb := by
  unfold candidates at h
  obtain ⟨comb, hc, rfl⟩ := List.mem_map.1 h
  exact ⟨hc, rfl⟩

/-- **At most `max_n_mod` groups (stage 1).** -/
theorem stage1_group_count (cfg : Cfg) (train : Table) (dev : Option (List (String × Row)))
    (labels : List String) (ws : List Cand) (dropOk : Bool)
    (h : search (candidates cfg train dev (consecutiveCombinations labels cfg.maxNMod)) 0 = .best ws dropOk) :
    ∀ w ∈ ws, 2 ≤ w.comb.length ∧ w.comb.length ≤ cfg.maxNMod ∧ IsCut labels w.comb := by
  intro w hw
  obtain ⟨hc, _, _⟩ := search_best_sound _ ws dropOk h w hw
  obtain ⟨hcomb, _⟩ := mem_candidates hc
  obtain ⟨h1, h2, h3⟩ := (consecutiveCombinations_iff labels cfg.maxNMod w.comb).1 hcomb
  exact ⟨h2, h3, h1⟩

/-- **At most `max_n_mod` groups, the missing-value group included (stage 2).** -/
theorem stage2_group_count (cfg : Cfg) (train : Table) (dev : Option (List (String × Row)))
    (leaders : List String) (nan : String) (ws : List Cand) (dropOk : Bool)
    (h : search (candidates cfg train dev (nanCombinations leaders nan cfg.maxNMod)) 0 = .best ws dropOk) :
    ∀ w ∈ ws, w.comb.length ≤ cfg.maxNMod := by
  intro w hw
  obtain ⟨hc, _, _⟩ := search_best_sound _ ws dropOk h w hw
  obtain ⟨hcomb, _⟩ := mem_candidates hc
  exact nanCombinations_length leaders nan cfg.maxNMod w.comb hcomb

/-- what viability of a combination means, unfolded -/
theorem viable_train {cfg : Cfg} {train : List (String × Row)} {dev : Option (List (String × Row))}
    {comb : List (List String)} (h : (viability cfg train dev comb).viable = true) :
    minFreqOk cfg ((grouper cfg train comb).map (·.2)) = true ∧
    distinctRates ((grouper cfg train comb).map (·.2)) = true := by
  unfold viability at h
  dsimp only at h
  cases dev with
  | none =>
    simp only [Viab.viable, Bool.and_eq_true] at h
    exact ⟨h.1.1, h.1.2⟩
  | some d =>
    dsimp only at h
    split at h
    · rename_i hntv
      simp only [Viab.viable] at h
      simp_all
    · simp only [Viab.viable, Bool.and_eq_true] at h
      exact ⟨h.1.1, h.1.2⟩

/-- an oracle answer is only used where the rank test is open: a passed test is always a possible one -/
theorem resolveRanks_possible {cfg : Cfg} {gt gd : List (String × Row)} (h : (resolveRanks cfg gt gd).1 = true) :
    ranksPossible gt gd = true := by
  unfold resolveRanks at h
  dsimp only at h
  split at h
  · rename_i hc
    simp only [Bool.and_eq_true] at hc
    exact hc.1
  · exact h

/-- **Dev robustness.** A viable combination tested against a dev sample satisfies on it the
    frequency bound, has every group observed (so that transforming the dev sample yields the same
    label set, whatever `min_freq_mod`), has distinct consecutive rates, and ranks the groups
    compatibly with train. -/
theorem viable_dev {cfg : Cfg} {train d : List (String × Row)} {comb : List (List String)}
    (h : (viability cfg train (some d) comb).viable = true) :
    (minFreqOk cfg ((grouper cfg d comb).map (·.2)) = true ∧
      (freqs ((grouper cfg d comb).map (·.2))).all (fun f => decide (0 < f)) = true) ∧
    distinctRates ((grouper cfg d comb).map (·.2)) = true ∧
    ranksPossible (grouper cfg train comb) (grouper cfg d comb) = true := by
  unfold viability at h
  dsimp only at h
  split at h
  · rename_i hntv
    simp only [Viab.viable] at h
    simp_all
  · simp only [Viab.viable, Bool.and_eq_true, Bool.not_true, Bool.false_or] at h
    obtain ⟨_, ⟨hr, hm⟩, hd⟩ := h
    exact ⟨hm, hd, resolveRanks_possible hr⟩

/-- **Every group of the fitted grouping holds at least `min_freq_mod` of the rows** of the
    table the search ran on (non-missing rows in stage 1, all rows in stage 2). -/
theorem winner_min_freq (cfg : Cfg) (train : Table) (dev : Option (List (String × Row)))
    (combs : List (List (List String))) (ws : List Cand) (dropOk : Bool)
    (h : search (candidates cfg train dev combs) 0 = .best ws dropOk) :
    ∀ w ∈ ws, ∀ f ∈ freqs ((grouper cfg train.rows w.comb).map (·.2)), cfg.minFreqMod ≤ f := by
  intro w hw f hf
  obtain ⟨hc, hv, _⟩ := search_best_sound _ ws dropOk h w hw
  obtain ⟨_, hveq⟩ := mem_candidates hc
  rw [hveq] at hv
  have := (viable_train hv).1
  unfold minFreqOk at this
  rw [List.all_eq_true] at this
  simpa using this f hf

/-! ## Non-vacuity -/
private def t0 : List (String × Row) :=
  [("a", ⟨10, 1, 0, false⟩), ("b", ⟨10, 5, 0, false⟩), ("c", ⟨10, 9, 0, false⟩)]
private def cfg0 : Cfg := { kind := .binary, sortBy := .cramerv, minFreqMod := 1/10, maxNMod := 3, dropna := true }
example : (viability cfg0 t0 none [["a"], ["b", "c"]]).viable = true := by decide +kernel
example : (viability cfg0 t0 (some t0) [["a"], ["b"], ["c"]]).certain = true := by decide +kernel

end C02
