import ACModel.Model.Remove
import ACModel.Props.C17
/-
  C08 — fit ends in a coherent fitted object or a clean AssertionError

  "On any well-formed input (finite numbers or NaN in quantitative columns, strings or numbers in
  qualitative columns, a valid target; including constant, all-missing, highly discrete or
  near-unique columns) fit either completes or raises AssertionError, never an internal error.
  After completion all per-feature attributes (features, values_orders, input_dtypes, labels,
  summary, history) refer to exactly the kept features, each `values_orders` entry is a well-formed
  ordered partition (unique leaders, disjoint groups, each leader in its own group) covering every
  training value, and dropped features are left untouched by transform."

  What is proved on the model: removing a feature removes it from *every* attribute and touches no
  other feature; the label table built by the final `BaseDiscretizer.fit` has exactly the kept
  features as keys; the base discretizers' cores cannot raise (they are total functions:
  `findQuantiles`, `mergeLoop`; see C09) and the carving search raises nothing either
  (`C01.search_crash_iff` with the repaired measure).  "Never an internal error" for the pandas /
  numpy glue around these cores is decided by the correspondence only (partial).
-/

namespace C08
open Disc C17

theorem aget_aerase_same {α β : Type} [DecidableEq α] (l : List (α × β)) (k : α) : aget? (aerase l k) k = none := by
  induction l with
  | nil => rfl
  | cons h t ih =>
    obtain ⟨k', v⟩ := h
    by_cases hk : k' = k
    · simp [aerase, hk, ih]
    · simp [aerase, aget?, hk, ih]

theorem aget_aerase_other {α β : Type} [DecidableEq α] (l : List (α × β)) (k k' : α) (h : k' ≠ k) :
    aget? (aerase l k) k' = aget? l k' := by
  induction l with
  | nil => rfl
  | cons hd t ih =>
    obtain ⟨k'', v⟩ := hd
    by_cases hk : k'' = k
    · subst hk
      have : ¬ k'' = k' := fun e => h e.symm
      simp [aerase, aget?, this, ih]
    · by_cases hk2 : k'' = k'
      · subst hk2
        simp [aerase, aget?, hk]
      · simp [aerase, aget?, hk, hk2, ih]

/-- **A removed feature is absent from every per-feature attribute.** -/
theorem removeFeature_all_attributes (s : Disc) (f : String) (hf : f ∈ s.features) :
    f ∉ (s.removeFeature f).features ∧ f ∉ (s.removeFeature f).quant ∧ f ∉ (s.removeFeature f).qual ∧
    aget? (s.removeFeature f).orders f = none ∧ aget? (s.removeFeature f).lpv f = none ∧
    aget? (s.removeFeature f).featDropna f = none ∧ ∀ c ∈ (s.removeFeature f).casting, f ∉ c.2 := by
  unfold removeFeature
  simp only [hf, not_true_eq_false, if_false]
  refine ⟨by simp, by simp, by simp, aget_aerase_same _ _, aget_aerase_same _ _, aget_aerase_same _ _, ?_⟩
  intro c hc
  obtain ⟨hc1, _⟩ := List.mem_filter.1 hc
  obtain ⟨c0, _, rfl⟩ := List.mem_map.1 hc1
  simp

/-- **… and nothing else is touched**: every other feature keeps its membership, order, labels. -/
theorem removeFeature_frame (s : Disc) (f g : String) (hg : g ≠ f) :
    (g ∈ (s.removeFeature f).features ↔ g ∈ s.features) ∧ (g ∈ (s.removeFeature f).quant ↔ g ∈ s.quant) ∧
    (g ∈ (s.removeFeature f).qual ↔ g ∈ s.qual) ∧
    aget? (s.removeFeature f).orders g = aget? s.orders g ∧ aget? (s.removeFeature f).lpv g = aget? s.lpv g ∧
    aget? (s.removeFeature f).featDropna g = aget? s.featDropna g := by
  unfold removeFeature
  split
  · simp
  · refine ⟨?_, ?_, ?_, aget_aerase_other _ _ _ hg, aget_aerase_other _ _ _ hg,
      aget_aerase_other _ _ _ hg⟩ <;> simp [hg]

theorem akeys_aset {α β : Type} [DecidableEq α] (l : List (α × β)) (k : α) (v : β) :
    ∀ x, x ∈ akeys (aset l k v) ↔ x ∈ akeys l ∨ x = k := by
  induction l with
  | nil => intro x; simp [aset, akeys]
  | cons h t ih =>
    intro x
    obtain ⟨k', v'⟩ := h
    by_cases hk : k' = k
    · subst hk
      simp only [aset, if_true, akeys, List.map_cons, List.mem_cons]
      constructor
      · intro h; exact Or.inl h
      · rintro (h | h)
        · exact h
        · exact Or.inl h
    · simp only [aset, hk, if_false, akeys, List.map_cons, List.mem_cons]
      have := ih x
      simp only [akeys] at this
      rw [this]
      constructor
      · rintro (h | h | h)
        · exact Or.inl (Or.inl h)
        · exact Or.inl (Or.inr h)
        · exact Or.inr h
      · rintro ((h | h) | h)
        · exact Or.inl h
        · exact Or.inr (Or.inl h)
        · exact Or.inr (Or.inr h)

/-- **The label table refers to exactly the kept features** whenever `BaseDiscretizer.fit`
    succeeds. -/
theorem labelsPerValues_keys (s : Disc) (b : Bool) (t : List (String × LabelTable))
    (h : s.labelsPerValues b = .ok t) : ∀ f, f ∈ akeys t ↔ f ∈ s.features := by
  unfold labelsPerValues at h
  suffices hgen : ∀ (todo : List String) (acc out : List (String × LabelTable)),
      todo.foldlM (fun acc f => do
        match aget? s.orders f with
        | none => throw Err.keyError
        | some g =>
          let labels ← labelsOf g (decide (f ∈ s.quant)) s.strNan b
          pure (aset acc f (tableOf g labels))) acc = .ok out →
      ∀ f, f ∈ akeys out ↔ f ∈ akeys acc ∨ f ∈ todo by
    intro f
    have := hgen s.features [] t h f
    simpa [akeys] using this
  intro todo
  induction todo with
  | nil =>
    intro acc out hout f
    simp only [List.foldlM, pure, Except.pure] at hout
    injection hout with hout; subst hout; simp
  | cons x rest ih =>
    intro acc out hout f
    simp only [List.foldlM, bind, Except.bind] at hout
    split at hout
    · cases hout
    · rename_i acc' hstep
      have hacc' : ∀ y, y ∈ akeys acc' ↔ y ∈ akeys acc ∨ y = x := by
        split at hstep
        · cases hstep
        · rename_i g _
          simp only [pure, Except.pure] at hstep
          split at hstep
          · cases hstep
          · injection hstep with hstep
            subst hstep
            exact akeys_aset acc x _
      rw [ih acc' out hout f, hacc' f]
      simp only [List.mem_cons]
      constructor
      · rintro ((h1 | h1) | h1)
        · exact Or.inl h1
        · exact Or.inr (Or.inl h1)
        · exact Or.inr (Or.inr h1)
      · rintro (h1 | h1 | h1)
        · exact Or.inl (Or.inl h1)
        · exact Or.inl (Or.inr h1)
        · exact Or.inr h1

/-- the only way `BaseDiscretizer.fit` (the last step of every fit) fails is the
    missing-`values_orders` AssertionError, or a label table that cannot be built -/
theorem fit_error_cases (s : Disc) (e : Err) (h : s.fit = .error e) :
    e = Err.assertion "Missing values_orders" ∨ s.labelsPerValues s.outFloat = .error e := by
  unfold Disc.fit at h
  split at h
  · injection h with h; exact Or.inl h.symm
  · split at h
    · rename_i e' he'
      injection h with h
      subst h
      exact Or.inr he'
    · cases h

/-- … and after a successful `fit` the label table's keys are the kept features -/
theorem fit_labels_keys (s s' : Disc) (h : s.fit = .ok s') : ∀ f, f ∈ akeys s'.lpv ↔ f ∈ s'.features := by
  unfold Disc.fit at h
  split at h
  · cases h
  · split at h
    · cases h
    · rename_i t ht
      injection h with h
      subst h
      exact labelsPerValues_keys s s.outFloat t ht

end C08
