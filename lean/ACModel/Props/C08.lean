import ACModel.Model.Remove
import ACModel.Props.C17
import ACModel.Props.C09
import ACModel.Model.Pipeline
import ACModel.Proofs.GroupedList
import ACModel.Proofs.Pipeline
import ACModel.Props.C03
import ACModel.Proofs.Frame
/-
  C08 — fit ends in a coherent fitted object or a clean AssertionError

  "On any well-formed input (finite numbers or NaN in quantitative columns, strings or numbers in
  qualitative columns, a valid target; including constant, all-missing, highly discrete or
  near-unique columns) fit either completes or raises AssertionError, never an internal error.
  After completion all per-feature attributes (features, values_orders, input_dtypes, labels,
  summary, history) refer to exactly the kept features, each `values_orders` entry is a well-formed
  ordered partition (unique leaders, disjoint groups, each leader in its own group) covering every
  training value, and dropped features are left untouched by transform."

  What is proved on the model: removing a feature removes it from *every* attribute and touches no
  other feature; the label table built by the final `BaseDiscretizer.fit` has exactly the kept
  features as keys; the base discretizers' cores cannot raise (they are total functions:
  `findQuantiles`, `mergeLoop`; see C09) and the carving search raises nothing either
  (`C01.search_crash_iff` with the repaired measure).  "Never an internal error" for the pandas /
  numpy glue around these cores is decided by the correspondence only (partial).
-/

namespace C08
open Disc C17

theorem aget_aerase_same {α β : Type} [DecidableEq α] (l : List (α × β)) (k : α) : aget? (aerase l k) k = none := by
  induction l with
  | nil => rfl
  | cons h t ih =>
    obtain ⟨k', v⟩ := h
    by_cases hk : k' = k
    · simp [aerase, hk, ih]
    · simp [aerase, aget?, hk, ih]

theorem aget_aerase_other {α β : Type} [DecidableEq α] (l : List (α × β)) (k k' : α) (h : k' ≠ k) :
    aget? (aerase l k) k' = aget? l k' := by
  induction l with
  | nil => rfl
  | cons hd t ih =>
    obtain ⟨k'', v⟩ := hd
    by_cases hk : k'' = k
    · subst hk
      have : ¬ k'' = k' := fun e => h e.symm
      simp [aerase, aget?, this, ih]
    · by_cases hk2 : k'' = k'
      · subst hk2
        simp [aerase, aget?, hk]
      · simp [aerase, aget?, hk, hk2, ih]

/-- **A removed feature is absent from every per-feature attribute.** -/
theorem removeFeature_all_attributes (s : Disc) (f : String) (hf : f ∈ s.features) :
    f ∉ (s.removeFeature f).features ∧ f ∉ (s.removeFeature f).quant ∧ f ∉ (s.removeFeature f).qual ∧
    aget? (s.removeFeature f).orders f = none ∧ aget? (s.removeFeature f).lpv f = none ∧
    aget? (s.removeFeature f).featDropna f = none ∧ ∀ c ∈ (s.removeFeature f).casting, f ∉ c.2 := by
  unfold removeFeature
  simp only [hf, not_true_eq_false, if_false]
  refine ⟨by simp, by simp, by simp, aget_aerase_same _ _, aget_aerase_same _ _, aget_aerase_same _ _, ?_⟩
  intro c hc
  obtain ⟨c0, _, hg⟩ := List.mem_filterMap.1 hc
  by_cases h0 : f ∈ c0.2
  · simp only [h0, if_true] at hg
    split at hg
    · cases hg
    · injection hg with hg
      subst hg
      simp
  · simp only [h0, if_false] at hg
    injection hg with hg
    subst hg
    exact h0

/-- **… and nothing else is touched**: every other feature keeps its membership, order, labels. -/
theorem removeFeature_frame (s : Disc) (f g : String) (hg : g ≠ f) :
    (g ∈ (s.removeFeature f).features ↔ g ∈ s.features) ∧ (g ∈ (s.removeFeature f).quant ↔ g ∈ s.quant) ∧
    (g ∈ (s.removeFeature f).qual ↔ g ∈ s.qual) ∧
    aget? (s.removeFeature f).orders g = aget? s.orders g ∧ aget? (s.removeFeature f).lpv g = aget? s.lpv g ∧
    aget? (s.removeFeature f).featDropna g = aget? s.featDropna g := by
  unfold removeFeature
  split
  · simp
  · refine ⟨?_, ?_, ?_, aget_aerase_other _ _ _ hg, aget_aerase_other _ _ _ hg,
      aget_aerase_other _ _ _ hg⟩ <;> simp [hg]

theorem akeys_aset {α β : Type} [DecidableEq α] (l : List (α × β)) (k : α) (v : β) :
    ∀ x, x ∈ akeys (aset l k v) ↔ x ∈ akeys l ∨ x = k := by
  induction l with
  | nil => intro x; simp [aset, akeys]
  | cons h t ih =>
    intro x
    obtain ⟨k', v'⟩ := h
    by_cases hk : k' = k
    · subst hk
      simp only [aset, if_true, akeys, List.map_cons, List.mem_cons]
      constructor
      · intro h; exact Or.inl h
      · rintro (h | h)
        · exact h
        · exact Or.inl h
    · simp only [aset, hk, if_false, akeys, List.map_cons, List.mem_cons]
      have := ih x
      simp only [akeys] at this
      rw [this]
      constructor
      · rintro (h | h | h)
        · exact Or.inl (Or.inl h)
        · exact Or.inl (Or.inr h)
        · exact Or.inr h
      · rintro ((h | h) | h)
        · exact Or.inl h
        · exact Or.inr (Or.inl h)
        · exact Or.inr (Or.inr h)

/-- **The label table refers to exactly the kept features** whenever `BaseDiscretizer.fit`
    succeeds. -/
theorem labelsPerValues_keys (s : Disc) (b : Bool) (t : List (String × LabelTable))
    (h : s.labelsPerValues b = .ok t) : ∀ f, f ∈ akeys t ↔ f ∈ s.features := by
  unfold labelsPerValues at h
  suffices hgen : ∀ (todo : List String) (acc out : List (String × LabelTable)),
      todo.foldlM (fun acc f => do
        match aget? s.orders f with
        | none => throw Err.keyError
        | some g =>
          let labels ← labelsOf g (decide (f ∈ s.quant)) s.strNan b
          pure (aset acc f (tableOf g labels))) acc = .ok out →
      ∀ f, f ∈ akeys out ↔ f ∈ akeys acc ∨ f ∈ todo by
    intro f
    have := hgen s.features [] t h f
    simpa [akeys] using this
  intro todo
  induction todo with
  | nil =>
    intro acc out hout f
    simp only [List.foldlM, pure, Except.pure] at hout
    injection hout with hout; subst hout; simp
  | cons x rest ih =>
    intro acc out hout f
    simp only [List.foldlM, bind, Except.bind] at hout
    split at hout
    · cases hout
    · rename_i acc' hstep
      have hacc' : ∀ y, y ∈ akeys acc' ↔ y ∈ akeys acc ∨ y = x := by
        split at hstep
        · cases hstep
        · rename_i g _
          simp only [pure, Except.pure] at hstep
          split at hstep
          · cases hstep
          · injection hstep with hstep
            subst hstep
            exact akeys_aset acc x _
      rw [ih acc' out hout f, hacc' f]
      simp only [List.mem_cons]
      constructor
      · rintro ((h1 | h1) | h1)
        · exact Or.inl h1
        · exact Or.inr (Or.inl h1)
        · exact Or.inr (Or.inr h1)
      · rintro (h1 | h1 | h1)
        · exact Or.inl (Or.inl h1)
        · exact Or.inl (Or.inr h1)
        · exact Or.inr h1

/-- the only way `BaseDiscretizer.fit` (the last step of every fit) fails is the
    missing-`values_orders` AssertionError, or a label table that cannot be built -/
theorem fit_error_cases (s : Disc) (e : Err) (h : s.fit = .error e) :
    e = Err.assertion "Missing values_orders" ∨ s.labelsPerValues s.outFloat = .error e := by
  unfold Disc.fit at h
  split at h
  · injection h with h; exact Or.inl h.symm
  · split at h
    · rename_i e' he'
      injection h with h
      subst h
      exact Or.inr he'
    · cases h

/-- … and after a successful `fit` the label table's keys are the kept features -/
theorem fit_labels_keys (s s' : Disc) (h : s.fit = .ok s') : ∀ f, f ∈ akeys s'.lpv ↔ f ∈ s'.features := by
  unfold Disc.fit at h
  split at h
  · cases h
  · split at h
    · cases h
    · rename_i t ht
      injection h with h
      subst h
      exact labelsPerValues_keys s s.outFloat t ht

/-! ## The base discretizers, as whole compositions, return well-formed ordered partitions

`Model/Pipeline.lean` composes the numeric cores with the very `GroupedList` operations the classes
call; every result is a well-formed `GroupedList` (unique leaders = keys of `content`, disjoint
groups, each leader in its own group), whatever the sample and `min_freq`. -/

open Pipeline in
theorem strictSorted_nodup : ∀ {l : List Rat}, C09.StrictSorted l → l.Nodup := by
  intro l h
  unfold C09.StrictSorted at h
  exact h.imp (fun hab => by intro e; subst e; exact absurd hab (Rat.lt_irrefl))

theorem quantileLeaders_nodup (h : BaseDisc.Hist) (lenDf q : Nat) :
    ((BaseDisc.findQuantiles h lenDf q).map Val.num ++ [Val.inf]).Nodup := by
  have hn := strictSorted_nodup (C09.findQuantiles_strict h lenDf q)
  rw [List.nodup_append]
  refine ⟨?_, by simp, ?_⟩
  · exact List.Pairwise.map Val.num (fun a b hab e => hab (by injection e)) hn
  · intro a ha b hb
    simp only [List.mem_map] at ha
    obtain ⟨x, _, rfl⟩ := ha
    simp only [List.mem_singleton] at hb
    subst hb; intro e; cases e

theorem values_ofList (l : List Val) (hn : l.Nodup) : (GL.ofList l).values = l := by
  unfold GL.values GL.ofList
  simp only
  rw [GL.ofKeys_eq_map _ hn]
  unfold Dict.allValues
  induction l with
  | nil => rfl
  | cons a t ih => simp [List.flatMap_cons] at ih ⊢; exact ih (List.nodup_cons.1 hn).2

/-- `ContinuousDiscretizer`: the fitted order of every feature is well formed -/
theorem contOrder_WF (h : Pipeline.QHist) (nNan q : Nat) (strNan : String) :
    (Pipeline.contOrder h nNan q strNan).WF := by
  unfold Pipeline.contOrder
  have hn := quantileLeaders_nodup (Pipeline.hist h) (BaseDisc.total (Pipeline.hist h) + nNan) q
  have h0 := GL.ofList_WF' hn
  dsimp only
  split
  · rw [GL.wf_iff]
    apply GL.append_WF' h0
    rw [values_ofList _ hn]
    intro hm
    rcases List.mem_append.1 hm with hm | hm
    · simp only [List.mem_map] at hm
      obtain ⟨x, _, hx⟩ := hm; cases hx
    · simp at hm
  · exact (GL.wf_iff _).2 h0

theorem convertToValuesQuant_WF : ∀ (groups : List (List String)) (l2q : List (String × Val)) (g g' : GL),
    g.WF' → Pipeline.convertToValuesQuant g groups l2q = .ok g' → g'.WF'
  | [], _, g, g', h, he => by
    simp [Pipeline.convertToValuesQuant, List.foldlM, pure, Except.pure] at he
    subst he; exact h
  | grp :: rest, l2q, g, g', h, he => by
    unfold Pipeline.convertToValuesQuant at he
    rw [List.foldlM_cons] at he
    simp only [bind, Except.bind] at he
    split at he
    · cases he
    · rename_i g1 hstep
      have hg1 : g1.WF' := by
        split at hstep
        · cases hstep
        · rename_i vals _
          split at hstep
          · cases hstep
          · rename_i kept _
            have hw := GL.groupList_WF' h vals kept
            split at hstep
            · rename_i g2 heq
              simp only [pure, Except.pure, Except.ok.injEq] at hstep
              subst hstep
              rw [heq] at hw; exact hw
            · cases hstep
      exact convertToValuesQuant_WF rest l2q g1 g' hg1 he

/-- `QuantitativeDiscretizer`: whenever the fit completes, the fitted order is well formed -/
theorem quantOrder_WF (h : Pipeline.QHist) (nNan : Nat) (minFreq : Rat) (strNan : String) (g : GL)
    (he : Pipeline.quantOrder h nNan minFreq strNan = .ok g) : g.WF := by
  have h0 := (GL.wf_iff _).1 (contOrder_WF h nNan (Pipeline.qOf minFreq) strNan)
  unfold Pipeline.quantOrder Pipeline.quantOrderQ at he
  simp only [bind, Except.bind, pure, Except.pure] at he
  split at he
  · simp only [Except.ok.injEq] at he
    subst he; exact (GL.wf_iff _).2 h0
  · split at he
    · cases he
    · exact (GL.wf_iff _).2 (convertToValuesQuant_WF _ _ _ _ h0 he)

theorem convertToValuesQual_WF : ∀ (groups : List (List Val)) (g g' : GL),
    g.WF' → Pipeline.convertToValuesQual g groups = .ok g' → g'.WF'
  | [], g, g', h, he => by
    simp [Pipeline.convertToValuesQual, List.foldlM, pure, Except.pure] at he
    subst he; exact h
  | grp :: rest, g, g', h, he => by
    unfold Pipeline.convertToValuesQual at he
    rw [List.foldlM_cons] at he
    simp only [bind, Except.bind] at he
    split at he
    · cases he
    · rename_i g1 hstep
      have hg1 : g1.WF' := by
        split at hstep
        · cases hstep
        · rename_i kept _
          have hw := GL.groupList_WF' h grp kept
          split at hstep
          · rename_i g2 heq
            simp only [pure, Except.pure, Except.ok.injEq] at hstep
            subst hstep
            rw [heq] at hw; exact hw
          · cases hstep
      exact convertToValuesQual_WF rest g1 g' hg1 he

/-- `OrdinalDiscretizer`: a well-formed ranking stays well formed, whatever is merged -/
theorem ordinalOrder_WF (g : GL) (rows : Pipeline.Rows) (minFreq : Rat) (strNan : String) (g' : GL)
    (hg : g.WF) (he : Pipeline.ordinalOrder g rows minFreq strNan = .ok g') : g'.WF := by
  unfold Pipeline.ordinalOrder at he
  dsimp only at he
  rw [GL.wf_iff]
  refine convertToValuesQual_WF _ _ _ ?_ he
  split
  · rename_i hc
    apply GL.append_WF' ((GL.wf_iff _).1 hg)
    simp only [Bool.and_eq_true, Bool.not_eq_true'] at hc
    intro hm
    have : g.contains (Arg.val (Val.str strNan)) = true := by
      unfold GL.contains
      rw [List.any_eq_true]
      exact ⟨_, hm, by simp [GL.isEqual]⟩
    rw [this] at hc
    exact absurd hc.2 (by simp)
  · exact (GL.wf_iff _).1 hg

/-- `CategoricalDiscretizer`: whenever the fit completes, the fitted order is well formed
    (it comes out of `sort_by`, which rebuilds the object) -/
theorem catOrder_WF (provided : Option GL) (rows : Pipeline.Rows) (minFreq : Rat) (strNan strDefault : String)
    (r : Pipeline.CatResult) (he : Pipeline.catOrder provided rows minFreq strNan strDefault = .ok r) : r.order.WF := by
  unfold Pipeline.catOrder at he
  cases h1 : Pipeline.catPrepare provided rows strNan strDefault with
  | error e => rw [h1] at he; cases he
  | ok p1 =>
    rw [h1] at he
    simp only [Except.bind] at he
    cases h2 : Pipeline.catGroupRare p1.1 p1.2 (Pipeline.catToGroup p1.1 p1.2 minFreq strNan) strDefault with
    | error e => rw [h2] at he; cases he
    | ok p2 =>
      rw [h2] at he
      unfold Pipeline.catSort at he
      dsimp only at he
      split at he
      · cases he
      · split at he
        · rename_i g3 hs
          injection he with he
          subst he
          exact (GL.wf_iff _).2 (GL.sortBy_WF' hs)
        · cases he


/-! ## The categorical pipeline never fails with anything but an AssertionError -/

theorem group_error_is_assertion {g : GL} (h : g.WF') (d k : Val) (e : Err) (he : (g.group d k).2 = some e) :
    ∃ m, e = Err.assertion m := by
  rcases GL.group_outcome h d k with ⟨hdk, hmiss, _, _⟩ | ⟨_, hnone⟩
  · unfold GL.group at he
    simp only [hdk, if_false] at he
    by_cases hd : d ∉ g.lst
    · simp only [hd, not_false_eq_true, if_true] at he
      injection he with he; exact ⟨_, he.symm⟩
    · have hk : k ∉ g.lst := by
        rcases hmiss with h1 | h1
        · exact absurd h1 hd
        · exact h1
      simp only [hd, if_false, hk, not_false_eq_true, if_true] at he
      injection he with he; exact ⟨_, he.symm⟩
  · rw [hnone] at he; cases he

theorem groupList_error_is_assertion : ∀ (ds : List Val) (g : GL), g.WF' → ∀ (k : Val) (e : Err),
    (g.groupList ds k).2 = some e → ∃ m, e = Err.assertion m := by
  intro ds
  induction ds with
  | nil => intro g _ k e he; simp [GL.groupList] at he
  | cons d t ih =>
    intro g h k e he
    unfold GL.groupList at he
    cases hg : g.group d k with
    | mk g' err =>
      rw [hg] at he
      cases err with
      | none =>
        simp only at he
        have hwf : g'.WF' := by have := GL.group_WF' h d k; rw [hg] at this; exact this
        exact ih g' hwf k e he
      | some e' =>
        simp only at he
        injection he with he
        subst he
        exact group_error_is_assertion h d k e' (by rw [hg])

theorem sortBy_error_is_assertion (g : GL) (o : List Val) (e : Err) (h : g.sortBy o = .error e) : ∃ m, e = Err.assertion m := by
  unfold GL.sortBy at h
  split at h
  · injection h with h; exact ⟨_, h.symm⟩
  · split at h
    · injection h with h; exact ⟨_, h.symm⟩
    · unfold GL.ofDict at h
      split at h
      · injection h with h; exact ⟨_, h.symm⟩
      · cases h

/-- the order `CategoricalDiscretizer._prepare_data` starts from -/
def catG0 (provided : Option GL) (rows : Pipeline.Rows) : GL :=
  match provided with
  | some g => g
  | none => GL.ofList (Pipeline.uniques rows)

theorem catPrepare_some (provided : Option GL) (rows : Pipeline.Rows) (strNan strDefault : String) :
    Pipeline.catPrepare provided rows strNan strDefault = Pipeline.catPrepare (some (catG0 provided rows)) rows strNan strDefault := by
  cases provided <;> rfl

theorem catPrepare_error (g0 : GL) (rows : Pipeline.Rows) (strNan strDefault : String) (e : Err)
    (h : Pipeline.catPrepare (some g0) rows strNan strDefault = .error e) : ∃ m, e = Err.assertion m := by
  simp only [Pipeline.catPrepare] at h
  split at h
  · injection h with h; exact ⟨_, h.symm⟩
  · cases h

theorem catPrepare_ok (g0 : GL) (rows : Pipeline.Rows) (strNan strDefault : String) (p : GL × Pipeline.Rows)
    (hwf : g0.WF') (hdef : Val.str strDefault ∉ g0.values) (hmark : strNan ≠ strDefault)
    (h : Pipeline.catPrepare (some g0) rows strNan strDefault = .ok p) : p.1.WF' ∧ Val.str strDefault ∉ p.1.values := by
  simp only [Pipeline.catPrepare] at h
  split at h
  · cases h
  · injection h with h
    rw [← h]
    simp only
    split
    · rename_i hc
      simp only [Bool.and_eq_true, decide_eq_true_eq] at hc
      refine ⟨GL.append_WF' hwf _ hc.2, ?_⟩
      intro hm
      unfold GL.append GL.values at hm
      simp only at hm
      obtain ⟨kv, hkv, hv⟩ := Dict.mem_allValues.1 hm
      rcases (Dict.mem_set hwf.2.1).1 hkv with h' | h'
      · exact hdef (Dict.mem_allValues.2 ⟨kv, h'.1, hv⟩)
      · rw [h'] at hv
        simp only [List.mem_singleton, Val.str.injEq] at hv
        exact hmark hv.symm
    · exact ⟨hwf, hdef⟩

/-- **`CategoricalDiscretizer` (prepare + fit of one feature) either completes or raises an
    AssertionError** - for every sample, every `min_freq` and every user-supplied order that is a
    well-formed partition not yet holding the default marker. -/
theorem catOrder_error_is_assertion (provided : Option GL) (rows : Pipeline.Rows) (minFreq : Rat) (strNan strDefault : String)
    (hprov : ∀ g, provided = some g → g.WF ∧ Val.str strDefault ∉ g.values)
    (hmark : strNan ≠ strDefault) (hobs : Val.str strDefault ∉ Pipeline.uniques rows)
    (e : Err) (he : Pipeline.catOrder provided rows minFreq strNan strDefault = .error e) : ∃ m, e = Err.assertion m := by
  have hg0 : (catG0 provided rows).WF' ∧ Val.str strDefault ∉ (catG0 provided rows).values := by
    unfold catG0
    cases hp : provided with
    | some g => exact ⟨(GL.wf_iff g).1 (hprov g hp).1, (hprov g hp).2⟩
    | none =>
      have hn := PipelineLemmas.nodup_uniques rows
      refine ⟨(GL.wf_iff _).1 (GL.C13_ctor_list_WF hn), ?_⟩
      simp only
      rw [values_ofList _ hn]; exact hobs
  unfold Pipeline.catOrder at he
  rw [catPrepare_some] at he
  cases h1 : Pipeline.catPrepare (some (catG0 provided rows)) rows strNan strDefault with
  | error e1 =>
    rw [h1] at he
    simp only [Except.bind] at he
    injection he with he; subst he
    exact catPrepare_error _ rows strNan strDefault e1 h1
  | ok p1 =>
    rw [h1] at he
    simp only [Except.bind] at he
    have hp1 := catPrepare_ok _ rows strNan strDefault p1 hg0.1 hg0.2 hmark h1
    cases h2 : Pipeline.catGroupRare p1.1 p1.2 (Pipeline.catToGroup p1.1 p1.2 minFreq strNan) strDefault with
    | error e2 =>
      rw [h2] at he
      simp only at he
      injection he with he; subst he
      unfold Pipeline.catGroupRare at h2
      split at h2
      · cases hgl : (p1.1.append (.str strDefault)).groupList (Pipeline.catToGroup p1.1 p1.2 minFreq strNan) (.str strDefault) with
        | mk g' err =>
          rw [hgl] at h2
          cases err with
          | none => cases h2
          | some e' =>
            simp only at h2
            injection h2 with h2; subst h2
            exact groupList_error_is_assertion _ _ (GL.append_WF' hp1.1 _ hp1.2) _ e' (by rw [hgl])
      · cases h2
    | ok p2 =>
      rw [h2] at he
      simp only at he
      unfold Pipeline.catSort at he
      dsimp only at he
      split at he
      · injection he with he; exact ⟨_, he.symm⟩
      · split at he
        · cases he
        · rename_i e3 hs
          injection he with he; subst he
          exact sortBy_error_is_assertion _ _ _ hs

/-! ## The ordinal pipeline never fails with anything but an AssertionError -/

theorem rel2_all {α β : Type} {R : α → β → Prop} : ∀ {as : List α} {bs : List β}, Merge.Rel2 R as bs → ∀ a ∈ as, ∃ b, R a b
  | [], [], _, a, ha => by cases ha
  | x :: xs, y :: ys, h, a, ha => by
    rcases List.mem_cons.1 ha with rfl | ha'
    · exact ⟨y, h.1⟩
    · exact rel2_all h.2 a ha'
  | [], _ :: _, h, _, _ => by cases h
  | _ :: _, [], h, _, _ => by cases h

/-- every group left by `find_common_modalities` has at least one label -/
theorem findCommonModalities_nonempty {α : Type} (labels : List α) (stats : List BaseDisc.Stat) (lenDf : Nat) (minFreq : Rat)
    (hlen : labels.length = stats.length) : ∀ g ∈ BaseDisc.findCommonModalities labels stats lenDf minFreq, g ≠ [] := by
  unfold BaseDisc.findCommonModalities
  have hinit : Merge.Rel2 (fun (g : List α) (_ : BaseDisc.Stat) => g ≠ []) (labels.map (fun l => [l])) stats := by
    clear lenDf minFreq
    induction labels generalizing stats with
    | nil => cases stats with
      | nil => trivial
      | cons _ _ => simp at hlen
    | cons a t ih =>
      cases stats with
      | nil => simp at hlen
      | cons s ss => exact ⟨by simp, ih ss (by simpa using hlen)⟩
  have := (Merge.mergeLoop_inv (fun (g : List α) (_ : BaseDisc.Stat) => g ≠ [])
    (fun g s gd sd hg _ => by intro h; exact hg (List.append_eq_nil_iff.1 h).2) labels.length
    (labels.map (fun l => [l])) stats lenDf minFreq (Merge.runsOf_singletons labels) hinit).2
  intro g hg
  obtain ⟨_, hb⟩ := rel2_all this g hg
  exact hb

theorem convertToValuesQual_error : ∀ (groups : List (List Val)) (g : GL), g.WF' → (∀ grp ∈ groups, grp ≠ []) →
    ∀ e, Pipeline.convertToValuesQual g groups = .error e → ∃ m, e = Err.assertion m
  | [], g, _, _, e, he => by simp [Pipeline.convertToValuesQual, List.foldlM, pure, Except.pure] at he
  | grp :: rest, g, h, hne, e, he => by
    unfold Pipeline.convertToValuesQual at he
    rw [List.foldlM_cons] at he
    simp only [bind, Except.bind] at he
    cases hl : grp.getLast? with
    | none =>
      have : grp = [] := List.getLast?_eq_none_iff.1 hl
      exact absurd this (hne grp List.mem_cons_self)
    | some kept =>
      rw [hl] at he
      simp only at he
      cases hg : g.groupList grp kept with
      | mk g1 err =>
        rw [hg] at he
        cases err with
        | some e' =>
          simp only [throw, throwThe, MonadExceptOf.throw] at he
          injection he with he; subst he
          exact groupList_error_is_assertion grp g h kept e' (by rw [hg])
        | none =>
          simp only [pure, Except.pure] at he
          have hg1 : g1.WF' := by have := GL.groupList_WF' h grp kept; rw [hg] at this; exact this
          exact convertToValuesQual_error rest g1 hg1 (fun x hx => hne x (List.mem_cons_of_mem _ hx)) e he

/-- **`OrdinalDiscretizer` (one feature) either completes or raises an AssertionError**, for every
    well-formed ranking, every sample and every `min_freq`. -/
theorem ordinalOrder_error_is_assertion (g : GL) (rows : Pipeline.Rows) (minFreq : Rat) (strNan : String)
    (hg : g.WF) (e : Err) (he : Pipeline.ordinalOrder g rows minFreq strNan = .error e) : ∃ m, e = Err.assertion m := by
  unfold Pipeline.ordinalOrder at he
  dsimp only at he
  refine convertToValuesQual_error _ _ ?_ ?_ e he
  · split
    · rename_i hc
      apply GL.append_WF' ((GL.wf_iff _).1 hg)
      simp only [Bool.and_eq_true, Bool.not_eq_true'] at hc
      intro hm
      have : g.contains (Arg.val (Val.str strNan)) = true := by
        unfold GL.contains
        rw [List.any_eq_true]
        exact ⟨_, hm, by simp [GL.isEqual]⟩
      rw [this] at hc
      exact absurd hc.2 (by simp)
    · exact (GL.wf_iff _).1 hg
  · apply findCommonModalities_nonempty
    simp

/-! ## The quantitative pipeline never fails with anything but an AssertionError -/

theorem filterMapM_error_elem {α β : Type} (f : α → Except Err (Option β)) : ∀ (l : List α) (err : Err),
    l.filterMapM f = .error err → ∃ v ∈ l, ∃ e, f v = .error e := by
  intro l
  induction l with
  | nil => intro err h; cases h
  | cons a t ih =>
    intro err h
    rw [List.filterMapM_cons] at h
    cases ha : f a with
    | error e => exact ⟨a, List.mem_cons_self, e, ha⟩
    | ok o =>
      rw [ha] at h
      cases o with
      | none =>
        simp only [bind, Except.bind] at h
        obtain ⟨v, hv, e, he⟩ := ih err h
        exact ⟨v, List.mem_cons_of_mem _ hv, e, he⟩
      | some b =>
        simp only [bind, Except.bind, pure, Except.pure] at h
        cases ht : t.filterMapM f with
        | error e2 =>
          obtain ⟨v, hv, e, he⟩ := ih e2 ht
          exact ⟨v, List.mem_cons_of_mem _ hv, e, he⟩
        | ok r => rw [ht] at h; cases h

/-- the labels of a list of numeric leaders (with `+inf` and possibly the missing-value marker) can
    always be computed -/
theorem getLabels_ok (vals : List Val) (strNan : String) (h : ∀ v ∈ vals, ∀ s, v = Val.str s → s = strNan) :
    ∃ r, Disc.getLabels vals (some strNan) = .ok r := by
  have hno : ∀ v ∈ vals.filter (Disc.neNan (some strNan)), ∀ s, v ≠ Val.str s := by
    intro v hv s e
    obtain ⟨hm, hn⟩ := List.mem_filter.1 hv
    subst e
    have := h _ hm s rfl
    subst this
    simp [Disc.neNan] at hn
  unfold Disc.getLabels
  simp only [bind, Except.bind]
  split
  · rename_i err heq
    exfalso
    obtain ⟨v, hv, e, he⟩ := filterMapM_error_elem _ _ err heq
    cases v with
    | num q => cases he
    | inf => cases he
    | str x => exact absurd rfl (hno _ hv x)
  · exact ⟨_, rfl⟩

theorem aget_foldl_aset_zip_mem : ∀ (ps : List (Val × String)) (acc : List (String × Val)) (l : String),
    (l ∈ ps.map (·.2) ∨ (aget? acc l).isSome) →
    (aget? (ps.foldl (fun acc p => aset acc p.2 p.1) acc) l).isSome := by
  intro ps
  induction ps with
  | nil =>
    intro acc l h
    rcases h with h | h
    · cases h
    · exact h
  | cons p t ih =>
    intro acc l h
    simp only [List.foldl_cons]
    apply ih
    rcases h with h | h
    · rcases List.mem_cons.1 h with rfl | h'
      · right; simp [FrameLemmas.aget_aset_same]
      · left; exact h'
    · right
      by_cases e : l = p.2
      · subst e; simp [FrameLemmas.aget_aset_same]
      · rw [FrameLemmas.aget_aset_other _ _ _ _ e]; exact h

theorem mapM_error_elem {α β : Type} (f : α → Except Err β) : ∀ (l : List α) (err : Err),
    l.mapM f = .error err → ∃ a ∈ l, ∃ e, f a = .error e := by
  intro l
  induction l with
  | nil => intro err h; cases h
  | cons a t ih =>
    intro err h
    rw [List.mapM_cons] at h
    cases ha : f a with
    | error e => exact ⟨a, List.mem_cons_self, e, ha⟩
    | ok b =>
      rw [ha] at h
      simp only [bind, Except.bind, pure, Except.pure] at h
      cases ht : t.mapM f with
      | error e2 =>
        obtain ⟨v, hv, e, he⟩ := ih e2 ht
        exact ⟨v, List.mem_cons_of_mem _ hv, e, he⟩
      | ok r => rw [ht] at h; cases h

theorem mapM_length {α β : Type} (f : α → Except Err β) : ∀ (l : List α) (r : List β), l.mapM f = .ok r → r.length = l.length := by
  intro l
  induction l with
  | nil => intro r h; simp [List.mapM_nil, pure, Except.pure] at h; subst h; rfl
  | cons a t ih =>
    intro r h
    rw [List.mapM_cons] at h
    cases ha : f a with
    | error e => rw [ha] at h; cases h
    | ok b =>
      rw [ha] at h
      simp only [bind, Except.bind, pure, Except.pure] at h
      cases ht : t.mapM f with
      | error e2 => rw [ht] at h; cases h
      | ok r' =>
        rw [ht] at h
        injection h with h; subst h
        simp [ih r' ht]

theorem zip_prefix_sub {α β : Type} : ∀ (a b : List α) (c : List β), ∀ p ∈ a.zip c, p ∈ (a ++ b).zip c := by
  intro a
  induction a with
  | nil => intro b c p hp; simp at hp
  | cons x t ih =>
    intro b c p hp
    cases c with
    | nil => simp at hp
    | cons y u =>
      simp only [List.zip_cons_cons, List.cons_append, List.mem_cons] at hp ⊢
      rcases hp with hp | hp
      · exact Or.inl hp
      · exact Or.inr (ih b u p hp)

theorem convertToValuesQuant_error : ∀ (groups : List (List String)) (l2q : List (String × Val)) (g : GL), g.WF' →
    (∀ grp ∈ groups, grp ≠ [] ∧ ∀ l ∈ grp, (aget? l2q l).isSome) →
    ∀ e, Pipeline.convertToValuesQuant g groups l2q = .error e → ∃ m, e = Err.assertion m
  | [], _, g, _, _, e, he => by simp [Pipeline.convertToValuesQuant, List.foldlM, pure, Except.pure] at he
  | grp :: rest, l2q, g, h, hgr, e, he => by
    unfold Pipeline.convertToValuesQuant at he
    rw [List.foldlM_cons] at he
    simp only [bind, Except.bind] at he
    obtain ⟨hne, hkeys⟩ := hgr grp List.mem_cons_self
    -- every label of the group has its quantile
    generalize hm : List.mapM (m := Except Err) _ grp = mres at he
    cases mres with
    | error em =>
      exfalso
      obtain ⟨l, hl, e', he'⟩ := mapM_error_elem _ grp em hm
      obtain ⟨v, hv⟩ := Option.isSome_iff_exists.1 (hkeys l hl)
      simp only [hv] at he'
      cases he'
    | ok vals =>
    have hlen : vals.length = grp.length := mapM_length _ grp vals hm
    simp only at he
    have hvne : vals ≠ [] := by
      intro hv; rw [hv] at hlen; exact hne (List.length_eq_zero_iff.1 hlen.symm)
    cases hmax : Pipeline.maxVal vals with
    | none =>
      cases vals with
      | nil => exact absurd rfl hvne
      | cons _ _ => simp [Pipeline.maxVal] at hmax
    | some kept =>
      rw [hmax] at he
      simp only at he
      cases hg : g.groupList vals kept with
      | mk g1 err =>
        rw [hg] at he
        cases err with
        | some e' =>
          simp only [throw, throwThe, MonadExceptOf.throw] at he
          injection he with he; subst he
          exact groupList_error_is_assertion vals g h kept e' (by rw [hg])
        | none =>
          simp only [pure, Except.pure] at he
          have hg1 : g1.WF' := by have := GL.groupList_WF' h vals kept; rw [hg] at this; exact this
          exact convertToValuesQuant_error rest l2q g1 hg1 (fun x hx => hgr x (List.mem_cons_of_mem _ hx)) e he

/-- **`QuantitativeDiscretizer` (one feature) either completes or raises an AssertionError**, for
    every sample, every number of quantiles and every `min_freq`: the labels of the quantiles can
    always be computed, every merged group of labels is non-empty and every label has its quantile. -/
theorem quantOrderQ_error_is_assertion (h : Pipeline.QHist) (nNan q : Nat) (minFreq : Rat) (strNan : String)
    (e : Err) (he : Pipeline.quantOrderQ h nNan q minFreq strNan = .error e) : ∃ m, e = Err.assertion m := by
  have h0 := (GL.wf_iff _).1 (contOrder_WF h nNan q strNan)
  -- the leaders: numbers, +inf, and possibly the missing-value marker at the end
  have hlst : ∃ nums : List Rat, ∃ tail : List Val, (Pipeline.contOrder h nNan q strNan).lst = (nums.map Val.num ++ [Val.inf]) ++ tail ∧
      (tail = [] ∨ tail = [Val.str strNan]) := by
    unfold Pipeline.contOrder
    dsimp only
    split
    · exact ⟨BaseDisc.findQuantiles (Pipeline.hist h) (BaseDisc.total (Pipeline.hist h) + nNan) q, [Val.str strNan],
        by simp [GL.append, GL.ofList], Or.inr rfl⟩
    · exact ⟨BaseDisc.findQuantiles (Pipeline.hist h) (BaseDisc.total (Pipeline.hist h) + nNan) q, [],
        by simp [GL.ofList], Or.inl rfl⟩
  obtain ⟨nums, tail, hl, htail⟩ := hlst
  have hstr : ∀ v ∈ (Pipeline.contOrder h nNan q strNan).lst, ∀ s, v = Val.str s → s = strNan := by
    intro v hv s e'
    rw [hl] at hv
    subst e'
    rcases List.mem_append.1 hv with hv | hv
    · rcases List.mem_append.1 hv with hv | hv
      · obtain ⟨x, _, hx⟩ := List.mem_map.1 hv; cases hx
      · simp at hv
    · rcases htail with ht | ht
      · rw [ht] at hv; cases hv
      · rw [ht] at hv; simpa using hv
  have hbounds : (Pipeline.contOrder h nNan q strNan).lst.filter (Disc.neNan (some strNan)) = nums.map Val.num ++ [Val.inf] := by
    rw [hl, List.filter_append, List.filter_append]
    have h1 : (nums.map Val.num).filter (Disc.neNan (some strNan)) = nums.map Val.num := by
      apply List.filter_eq_self.2
      intro v hv
      obtain ⟨x, _, rfl⟩ := List.mem_map.1 hv
      rfl
    have h2 : [Val.inf].filter (Disc.neNan (some strNan)) = [Val.inf] := rfl
    have h3 : tail.filter (Disc.neNan (some strNan)) = [] := by
      rcases htail with ht | ht
      · rw [ht]; rfl
      · rw [ht]; simp [Disc.neNan]
    rw [h1, h2, h3]; simp
  unfold Pipeline.quantOrderQ at he
  simp only [bind, Except.bind, pure, Except.pure] at he
  split at he
  · cases he
  · obtain ⟨labelVals, hlab⟩ := getLabels_ok _ strNan hstr
    rw [hlab] at he
    simp only at he
    refine convertToValuesQuant_error _ _ _ h0 ?_ e he
    intro grp hgrp
    have hlen : ((((Pipeline.contOrder h nNan q strNan).lst.filter (Disc.neNan (some strNan))).zip (labelVals.filterMap Pipeline.strOfVal)).map (·.2)).length =
        ((Pipeline.bucketStats h ((Pipeline.contOrder h nNan q strNan).lst.filter (Disc.neNan (some strNan)))).take
          ((((Pipeline.contOrder h nNan q strNan).lst.filter (Disc.neNan (some strNan))).zip (labelVals.filterMap Pipeline.strOfVal)).map (·.2)).length).length := by
      rw [List.length_take]
      have hb : ∀ (hh : Pipeline.QHist) (bs : List Val), (Pipeline.bucketStats hh bs).length = bs.length := by
        intro hh bs
        induction bs generalizing hh with
        | nil => rfl
        | cons b t ih => simp [Pipeline.bucketStats, ih]
      rw [hb]
      simp only [List.length_map, List.length_zip]
      omega
    refine ⟨findCommonModalities_nonempty _ _ _ _ hlen grp hgrp, ?_⟩
    intro l hl'
    -- the label is one of the known labels, all of which are keys of the label -> quantile table
    have hcover := (C03.ordinal_groups_cover _ _ (BaseDisc.total (Pipeline.hist h) + nNan) (minFreq / 2) hlen)
    have hmem : l ∈ (((Pipeline.contOrder h nNan q strNan).lst.filter (Disc.neNan (some strNan))).zip (labelVals.filterMap Pipeline.strOfVal)).map (·.2) := by
      apply hcover.mem_iff.1
      exact List.mem_flatten.2 ⟨grp, hgrp, hl'⟩
    unfold Pipeline.labelsToQuantiles
    apply aget_foldl_aset_zip_mem
    left
    obtain ⟨pq, hpq, rfl⟩ := List.mem_map.1 hmem
    rw [hbounds] at hpq
    exact List.mem_map.2 ⟨pq, by rw [hl]; exact zip_prefix_sub _ tail _ pq hpq, rfl⟩

theorem quantOrder_error_is_assertion (h : Pipeline.QHist) (nNan : Nat) (minFreq : Rat) (strNan : String)
    (e : Err) (he : Pipeline.quantOrder h nNan minFreq strNan = .error e) : ∃ m, e = Err.assertion m :=
  quantOrderQ_error_is_assertion h nNan (Pipeline.qOf minFreq) minFreq strNan e he

-- the pipeline theorems are not vacuous: two over-represented values give the boundaries 0, 1, +inf; the empty last
-- bucket is rare, so the feature goes through the merging loop and `convert_to_values`: +inf absorbs the bucket of 1
example : (Pipeline.quantOrderQ [(0, 5, 3), (1, 5, 1)] 0 2 (1/2) "__NAN__").toOption.map (fun g => (g.lst, g.content)) =
    some ([.num 0, .inf], [(.num 0, [.num 0]), (.inf, [.num 1, .inf])]) := by decide +kernel
-- a categorical feature with one rare value ("c": 1 row of 8) and missing values
example : (Pipeline.catOrder none [(some (.str "a"), 1), (some (.str "b"), 0), (some (.str "a"), 0), (none, 1),
      (some (.str "c"), 1), (some (.str "a"), 1), (some (.str "b"), 0), (some (.str "a"), 0)] (1/5) "__NAN__" "__OTHER__").toOption.map
      (fun r => (r.grouped, r.order.lst)) =
    some ([.str "c"], [.str "b", .str "a", .str "__OTHER__", .str "__NAN__"]) := by decide +kernel-- ... and a value the user's order does not know is refused with an AssertionError (the hypotheses of catOrder_error_is_assertion hold)
example : (match Pipeline.catOrder (some (GL.ofList [.str "a", .str "b"])) [(some (.str "a"), 1), (some (.str "q"), 0)] (1/5) "__NAN__" "__OTHER__" with
    | .error (Err.assertion m) => m == "Unexpected value"
    | _ => false) = true := by decide +kernel
example : (GL.ofList [Val.str "a", .str "b"]).WF ∧ Val.str "__OTHER__" ∉ (GL.ofList [Val.str "a", .str "b"]).values := by decide
end C08
