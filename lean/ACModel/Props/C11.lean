import ACModel.Props.C09
import ACModel.Props.C02
import ACModel.Proofs.Rename
/-
  C11 — Carving is invariant under information-preserving re-encodings

  "Permuting the rows (with their index), relabelling the index, multiplying a quantitative feature
  by a positive constant or shifting it (exactly representable), or renaming categories by an
  order-preserving bijection leaves unchanged which features are kept and the partition of rows
  induced by transform."

  In the model the base discretization consumes a sample only through the histogram of its values
  (`Hist`: sorted distinct values with counts) and the carving search only through per-modality
  counts (`Carve.Row`), so row permutations and index relabellings are invisible by construction.
  What needs proof is equivariance of `find_quantiles` under strictly increasing maps of the
  values (`x ↦ a·x + b`, `a > 0`): the boundaries are mapped, hence the partition of rows is the
  same.  The float kernels only see counts, so they are unaffected.  Added in the second session: the
  table a search works on depends on the multiset of rows only (`counts_perm`), and the search is
  equivariant under an injective renaming of the base labels (`stage1_rename_equivariant`: renamed
  tables and labels in, renamed winners out, with the same measures and verdicts).
-/

namespace C11
open BaseDisc C09

/-- re-encode the values of a histogram -/
def mapHist (f : Rat → Rat) (h : Hist) : Hist := h.map (fun p => (f p.1, p.2))

theorem total_mapHist (f : Rat → Rat) (h : Hist) : total (mapHist f h) = total h := by
  simp [total, mapHist, List.map_map, Function.comp_def]

theorem elemAt_mapHist (f : Rat → Rat) : ∀ (h : Hist) (j : Nat), elemAt (mapHist f h) j = (elemAt h j).map f
  | [], _ => rfl
  | (v, c) :: t, j => by
    simp only [mapHist, List.map_cons, elemAt]
    split
    · rfl
    · exact elemAt_mapHist f t (j - c)

theorem maxOf_mapHist (f : Rat → Rat) : ∀ (h : Hist), maxOf (mapHist f h) = (maxOf h).map f
  | [] => rfl
  | [(v, c)] => rfl
  | a :: b :: t => by
    have := maxOf_mapHist f (b :: t)
    simpa [mapHist, maxOf] using this

/-- the quantile cuts of a run are mapped value by value -/
theorem cutRun_mapHist (f : Rat → Rat) (run : Hist) (lenDf q : Nat) :
    cutRun (mapHist f run) lenDf q = (cutRun run lenDf q).map f := by
  unfold cutRun
  simp only [total_mapHist]
  split
  · rfl
  · split
    · simp only [elemAt_mapHist, List.map_filterMap]
    · rw [maxOf_mapHist]
      cases maxOf run <;> rfl

theorem splitRuns_mapHist (f : Rat → Rat) (lenDf q : Nat) : ∀ (h cur : Hist),
    splitRuns lenDf q (mapHist f h) (mapHist f cur) = (splitRuns lenDf q h cur).map (mapHist f)
  | [], cur => by simp [splitRuns, mapHist, List.map_reverse]
  | (v, c) :: t, cur => by
    simp only [mapHist, List.map_cons, splitRuns]
    split
    · have := splitRuns_mapHist f lenDf q t []
      simp only [mapHist, List.map_nil] at this
      simp [this, mapHist, List.map_reverse]
    · have := splitRuns_mapHist f lenDf q t ((v, c) :: cur)
      simpa [mapHist] using this

/-- a strictly increasing re-encoding -/
def StrictMono (f : Rat → Rat) : Prop := ∀ a b, a < b → f a < f b

theorem StrictMono.le {f : Rat → Rat} (hf : StrictMono f) {a b : Rat} (h : a ≤ b) : f a ≤ f b := by
  by_cases e : a = b
  · subst e; exact Rat.le_refl
  · exact Rat.le_of_lt (hf a b (Rat.lt_of_le_of_ne h e))

theorem StrictMono.le_iff {f : Rat → Rat} (hf : StrictMono f) {a b : Rat} : f a ≤ f b ↔ a ≤ b := by
  constructor
  · intro h
    apply Rat.not_lt.1
    intro hlt
    exact (Rat.not_le.2 (hf b a hlt)) h
  · exact hf.le

theorem StrictMono.inj {f : Rat → Rat} (hf : StrictMono f) {a b : Rat} (h : f a = f b) : a = b :=
  Rat.le_antisymm (hf.le_iff.1 (h ▸ Rat.le_refl)) (hf.le_iff.1 (h ▸ Rat.le_refl))

theorem insertSorted_map {f : Rat → Rat} (hf : StrictMono f) (x : Rat) : ∀ (l : List Rat),
    insertSorted (f x) (l.map f) = (insertSorted x l).map f
  | [] => rfl
  | y :: t => by
    simp only [List.map_cons, insertSorted]
    by_cases h : x ≤ y
    · simp [h, hf.le h]
    · have : ¬ f x ≤ f y := fun e => h (hf.le_iff.1 e)
      simp [h, this, insertSorted_map hf x t]

theorem sortRats_map {f : Rat → Rat} (hf : StrictMono f) : ∀ (l : List Rat), sortRats (l.map f) = (sortRats l).map f
  | [] => rfl
  | x :: t => by
    simp only [List.map_cons, sortRats, sortRats_map hf t, insertSorted_map hf]

theorem dedupSorted_map {f : Rat → Rat} (hf : StrictMono f) : ∀ (l : List Rat),
    dedupSorted (l.map f) = (dedupSorted l).map f
  | [] => rfl
  | [a] => rfl
  | a :: b :: t => by
    have ih := dedupSorted_map hf (b :: t)
    simp only [List.map_cons] at ih ⊢
    unfold dedupSorted
    by_cases h : a = b
    · simp [h, ih]
    · have : ¬ f a = f b := fun e => h (hf.inj e)
      simp [h, this, ih]

/-- **`find_quantiles` is equivariant under strictly increasing re-encodings** of the values —
    in particular under every `x ↦ a·x + b` with `a > 0`: the boundaries are the images of the
    boundaries, so the induced partition of the rows is unchanged. -/
theorem findQuantiles_equivariant {f : Rat → Rat} (hf : StrictMono f) (h : Hist) (lenDf q : Nat) (dedup : Bool) :
    findQuantiles (mapHist f h) lenDf q dedup = (findQuantiles h lenDf q dedup).map f := by
  unfold findQuantiles
  have hany : ((mapHist f h).any fun p => isFrequent lenDf q p.2) = (h.any fun p => isFrequent lenDf q p.2) := by
    simp [mapHist, List.any_map, Function.comp_def]
  have hsplit := splitRuns_mapHist f lenDf q h []
  simp only [mapHist, List.map_nil] at hsplit
  have hraw : (if ((mapHist f h).any fun p => isFrequent lenDf q p.2) = true then
        (splitRuns lenDf q (mapHist f h) []).flatMap (fun run => cutRun run lenDf q) ++
          ((mapHist f h).filter (fun p => isFrequent lenDf q p.2)).map (·.1)
        else cutRun (mapHist f h) lenDf q) =
      (if (h.any fun p => isFrequent lenDf q p.2) = true then
        (splitRuns lenDf q h []).flatMap (fun run => cutRun run lenDf q) ++
          (h.filter (fun p => isFrequent lenDf q p.2)).map (·.1)
        else cutRun h lenDf q).map f := by
    rw [hany]
    split
    · simp only [List.map_append, List.map_flatMap]
      congr 1
      · show (splitRuns lenDf q (List.map (fun p => (f p.1, p.2)) h) []).flatMap _ = _
        rw [hsplit, List.flatMap_map]
        congr 1
        funext run
        exact cutRun_mapHist f run lenDf q
      · simp [mapHist, List.filter_map, List.map_map, Function.comp_def]
    · exact cutRun_mapHist f h lenDf q
  dsimp only
  rw [hraw]
  cases dedup
  · simp [sortRats_map hf]
  · simp [sortRats_map hf, dedupSorted_map hf]

/-- positive affine maps are strictly increasing -/
theorem affine_strictMono (a b : Rat) (ha : 0 < a) : StrictMono (fun x => a * x + b) := by
  intro x y hxy
  have h1 : a * x < a * y := by
    have := Rat.mul_lt_mul_of_pos_left hxy ha
    exact this
  exact Rat.add_lt_add_right.2 h1

/-- **Affine invariance of the quantile boundaries.** -/
theorem findQuantiles_affine (a b : Rat) (ha : 0 < a) (h : Hist) (lenDf q : Nat) :
    findQuantiles (mapHist (fun x => a * x + b) h) lenDf q =
      (findQuantiles h lenDf q).map (fun x => a * x + b) :=
  findQuantiles_equivariant (affine_strictMono a b ha) h lenDf q true


/-! ## Row permutations and renamings, for the carving search -/
section Carving
open Carve Comb RenameLemmas

/-- **Permuting the rows changes no table**: a table that counts the rows of a column counts the rows of every
    permutation of it (the hypothesis `Counts` of the row-level theorems of C02 is about the multiset of rows). -/
theorem counts_perm {t : List (String × Row)} {col col' : List String} (h : col.Perm col') :
    C02.Counts t col ↔ C02.Counts t col' := by
  unfold C02.Counts
  constructor
  · intro hc l; rw [← h.count_eq]; exact hc l
  · intro hc l; rw [h.count_eq]; exact hc l

/-- **The carving search is equivariant under an injective renaming of the base labels**: on the renamed tables
    (train and dev) and the renamed labels, the search over the consecutive groupings returns exactly the renamed
    winners — the same groups of rows, with the same measures and viability verdicts; it crashes or finds nothing
    in exactly the same cases.  (A renaming that keeps the order of the labels, as the property says: the labels
    are listed in the same order on both sides.) -/
theorem stage1_rename_equivariant {ρ : String → String} (hρ : Inj ρ) (cfg : Cfg) (hns : cfg.sortGroupsByLabel = false)
    (train : Table) (dev : Option (List (String × Row))) (labels : List String) (tol : Rat) :
    search (candidates cfg { rows := renT ρ train.rows, tie := train.tie } (dev.map (renT ρ))
        (consecutiveCombinations (labels.map ρ) cfg.maxNMod)) tol
      = match search (candidates cfg train dev (consecutiveCombinations labels cfg.maxNMod)) tol with
        | .crash => .crash
        | .none => .none
        | .best ws d => .best (ws.map (renCand ρ)) d := by
  rw [consecutiveCombinations_map, candidates_ren hρ cfg hns, search_ren]
  cases search (candidates cfg train dev (consecutiveCombinations labels cfg.maxNMod)) tol <;> rfl

/-- … in particular the same features are dropped -/
theorem stage1_rename_none {ρ : String → String} (hρ : Inj ρ) (cfg : Cfg) (hns : cfg.sortGroupsByLabel = false)
    (train : Table) (dev : Option (List (String × Row))) (labels : List String) (tol : Rat) :
    search (candidates cfg { rows := renT ρ train.rows, tie := train.tie } (dev.map (renT ρ))
        (consecutiveCombinations (labels.map ρ) cfg.maxNMod)) tol = .none ↔
    search (candidates cfg train dev (consecutiveCombinations labels cfg.maxNMod)) tol = .none := by
  rw [stage1_rename_equivariant hρ cfg hns]
  cases search (candidates cfg train dev (consecutiveCombinations labels cfg.maxNMod)) tol <;> simp

/-- **… and so is the search over the placements of the missing-value modality** (stage 2: the stage-1 leaders and the
    missing-value marker renamed together). -/
theorem stage2_rename_equivariant {ρ : String → String} (hρ : Inj ρ) (cfg : Cfg) (hns : cfg.sortGroupsByLabel = false)
    (train : Table) (dev : Option (List (String × Row))) (leaders : List String) (nan : String) (tol : Rat) :
    search (candidates cfg { rows := renT ρ train.rows, tie := train.tie } (dev.map (renT ρ))
        (nanCombinations (leaders.map ρ) (ρ nan) cfg.maxNMod)) tol
      = match search (candidates cfg train dev (nanCombinations leaders nan cfg.maxNMod)) tol with
        | .crash => .crash
        | .none => .none
        | .best ws d => .best (ws.map (renCand ρ)) d := by
  rw [nanCombinations_map, candidates_ren hρ cfg hns, search_ren]
  cases search (candidates cfg train dev (nanCombinations leaders nan cfg.maxNMod)) tol <;> rfl

example : Inj (fun s => s ++ "!r") := by intro a b h; simpa using h
private def tR : Table := { rows := [("a", ⟨10, 1, 0, false⟩), ("b", ⟨10, 5, 0, false⟩), ("c", ⟨10, 9, 0, false⟩)] }
private def cfgR : Cfg := { kind := .binary, sortBy := .cramerv, minFreqMod := 1/10, maxNMod := 3, dropna := true }
example : (match search (candidates cfgR { rows := renT (fun s => s ++ "!r") tR.rows, tie := tR.tie } none
      (consecutiveCombinations (["a", "b", "c"].map (fun s => s ++ "!r")) 3)) 0 with
    | .best ws _ => ws.map (·.comb)
    | _ => []) = [[["a!r"], ["b!r"], ["c!r"]]] := by decide +kernel

end Carving

end C11
