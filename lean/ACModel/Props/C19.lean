import ACModel.Model.Validate
/-
  C19 — Malformed inputs are refused up-front with AssertionError

  "Targets with missing values, with the wrong number of classes for the carver type, or indexed
  differently from X; non-DataFrame X or non-Series y; missing feature columns in X or X_dev; a
  feature declared both quantitative and qualitative; strings in a quantitative feature; values
  absent from an ordinal ranking; an unsupported sort_by; and a second fit of a fitted object are
  all rejected with AssertionError. A rejected call leaves an already fitted object's
  values_orders, JSON export and transform unchanged."

  Model: `ACModel/Model/Validate.lean`, the guards of `fit` in call order over an abstract
  description of the call.  The guards are pure tests (they read, they never write), and the
  refit guard comes first, so a rejected call on a fitted object cannot have changed it: that
  half of the property is `refit_first`.  The mapping from a real call to its abstract
  description is harness code (partial); `__init__`-time checks (both types, sort_by) are
  exercised on the code only.
-/

namespace C19
open Validate

theorem firstFailing_accepted_iff (l : List (Bool × String)) : firstFailing l = .accepted ↔ ∀ g ∈ l, g.1 = false := by
  induction l with
  | nil => simp [firstFailing]
  | cons g t ih =>
    obtain ⟨b, m⟩ := g
    cases b
    · simp only [firstFailing, ih, List.mem_cons, forall_eq_or_imp, true_and]
    · simp [firstFailing]

theorem rejected_of_mem {l : List (Bool × String)} {m : String} (h : (true, m) ∈ l) : ∃ g, firstFailing l = .assertion g := by
  cases hres : firstFailing l with
  | assertion g => exact ⟨g, rfl⟩
  | accepted =>
    have := (firstFailing_accepted_iff l).1 hres _ h
    cases this

/-- **Every malformed call is rejected with AssertionError** (never accepted, never another error:
    the guard model has no other outcome). -/
theorem malformed_rejected (k : Kind) (c : Call) (h : Malformed k c) : ∃ g, fitGuards k c = .assertion g := by
  unfold fitGuards
  unfold Malformed at h
  rcases h with h | h | h | h | h | h | h | ⟨hk, hd, h⟩ | ⟨hk, h⟩ | ⟨hk, h⟩ | ⟨hk, h⟩ | ⟨hk, h⟩ | ⟨hk, h⟩
  · exact rejected_of_mem (m := "already fitted") (by simp [guards, h])
  · exact rejected_of_mem (m := "X must be a pandas.DataFrame") (by simp [guards, h])
  · exact rejected_of_mem (m := "columns are missing") (by simp [guards, h])
  · exact rejected_of_mem (m := "y must be a pandas.Series") (by simp [guards, h])
  · exact rejected_of_mem (m := "y should not contain numpy.nan") (by simp [guards, h])
  · exact rejected_of_mem (m := "X and y must have the same indices") (by simp [guards, h])
  · exact rejected_of_mem (m := "X and y must have the same indices") (by simp [guards, h])
  · have hc : isCarver k = true := by rcases hk with rfl | rfl | rfl <;> rfl
    rcases h with h | h
    · exact rejected_of_mem (m := "X_dev must be a pandas.DataFrame") (by simp [guards, hc, hd, h])
    · exact rejected_of_mem (m := "columns are missing from X_dev") (by simp [guards, hc, hd, h])
  · subst hk
    have : (c.yIsZeroOne && c.nClasses == 2) = false := by
      cases hz : c.yIsZeroOne <;> simp_all
    exact rejected_of_mem (m := "y must be a binary Series") (by simp [guards, this])
  · subst hk
    have : (decide (c.nClasses > 2) && !c.yHasStrings) = false := by
      cases hs : c.yHasStrings <;> simp_all
    exact rejected_of_mem (m := "y must be a continuous Series") (by simp [guards, this])
  · subst hk
    exact rejected_of_mem (m := "provided y is binary") (by simp [guards, h])
  · have : (k != .qualitative) = true := by simpa using hk
    exact rejected_of_mem (m := "Non-numeric features") (by simp [guards, this, h])
  · have : (k != .quantitative) = true := by simpa using hk
    exact rejected_of_mem (m := "Unexpected value") (by simp [guards, this, h])

/-- … and conversely a call that passes no malformed test passes every guard, except for the
    dev-target check, which the property does not list (hypothesis `hdev`). -/
theorem wellformed_accepted (k : Kind) (c : Call) (h : ¬ Malformed k c)
    (hdev : (isCarver k && c.hasDev && !c.devYOk) = false) : fitGuards k c = .accepted := by
  unfold fitGuards
  rw [firstFailing_accepted_iff]
  unfold Malformed at h
  simp only [not_or, not_and] at h
  obtain ⟨h1, h2, h3, h4, h5, h6, h7, h8, h9, h10, h11, h12, h13⟩ := h
  intro g hg
  simp only [guards, List.mem_cons, List.mem_nil_iff, or_false] at hg
  have e1 : c.alreadyFitted = false := by simpa using h1
  have e2 : c.xIsFrame = true := by simpa using h2
  have e3 : c.missingColumns = false := by simpa using h3
  have e4 : c.yIsSeries = true := by simpa using h4
  have e5 : c.yHasNaN = false := by simpa using h5
  have e6 : c.sameLength = true := by simpa using h6
  have e7 : c.sameIndex = true := by simpa using h7
  rcases hg with rfl | rfl | rfl | rfl | rfl | rfl | rfl | rfl | rfl | rfl | rfl | rfl | rfl | rfl
  · exact e1
  · simp [e2]
  · exact e3
  · simp [e4]
  · exact e5
  · simp [e6, e7]
  · cases hc : isCarver k
    · first | rfl | simp
    · cases hd : c.hasDev
      · first | rfl | simp
      · have hk : k = .binaryCarver ∨ k = .continuousCarver ∨ k = .multiclassCarver := by
          cases k <;> simp_all [isCarver]
        have := h8 hk hd
        simp_all
  · cases hc : isCarver k
    · first | rfl | simp
    · cases hd : c.hasDev
      · first | rfl | simp
      · have hk : k = .binaryCarver ∨ k = .continuousCarver ∨ k = .multiclassCarver := by
          cases k <;> simp_all [isCarver]
        have := h8 hk hd
        simp_all
  · exact hdev
  · cases hk : (k == Kind.binaryCarver)
    · first | rfl | simp
    · have : k = .binaryCarver := by simpa using hk
      have := h9 this
      simp_all
  · cases hk : (k == Kind.continuousCarver)
    · first | rfl | simp
    · have : k = .continuousCarver := by simpa using hk
      have := h10 this
      simp_all
  · cases hk : (k == Kind.multiclassCarver)
    · first | rfl | simp
    · have : k = .multiclassCarver := by simpa using hk
      have := h11 this
      simp_all
  · cases hk : (k != Kind.quantitative)
    · first | rfl | simp
    · have : k ≠ .quantitative := by simpa using hk
      have := h13 this
      simp [this]
  · cases hk : (k != Kind.qualitative)
    · first | rfl | simp
    · have : k ≠ .qualitative := by simpa using hk
      have := h12 this
      simp [this]

/-- **The refit guard runs first**: on a fitted object the call is refused before any other guard
    is evaluated, whatever else is wrong with the inputs — nothing has been touched. -/
theorem refit_first (k : Kind) (c : Call) (h : c.alreadyFitted = true) :
    fitGuards k c = .assertion "already fitted" := by
  simp [fitGuards, guards, firstFailing, h]

/-- **Which guard answers**: the AssertionError is the one of the first guard that fires — whatever the guards after it
    would have said (this is what the correspondence compares with the message of the real exception, also for calls
    malformed in two ways at once). -/
theorem firstFailing_append (l1 l2 : List (Bool × String)) (m : String) (h : ∀ g ∈ l1, g.1 = false) :
    firstFailing (l1 ++ (true, m) :: l2) = .assertion m := by
  induction l1 with
  | nil => simp [firstFailing]
  | cons g t ih =>
    obtain ⟨b, m'⟩ := g
    have hb : b = false := h (b, m') (List.mem_cons_self ..)
    subst hb
    simp only [List.cons_append, firstFailing]
    exact ih (fun g hg => h g (List.mem_cons_of_mem _ hg))

/-- on an object that is not fitted yet, an `X` that is not a DataFrame is what the call is refused for, whatever `y` is -/
theorem x_not_frame_first (k : Kind) (c : Call) (h1 : c.alreadyFitted = false) (h2 : c.xIsFrame = false) :
    fitGuards k c = .assertion "X must be a pandas.DataFrame" := by
  simp [fitGuards, guards, firstFailing, h1, h2]

/-- a missing column of `X` is reported before anything about the target -/
theorem missing_columns_before_target (k : Kind) (c : Call) (h1 : c.alreadyFitted = false) (h2 : c.xIsFrame = true)
    (h3 : c.missingColumns = true) : fitGuards k c = .assertion "columns are missing" := by
  simp [fitGuards, guards, firstFailing, h1, h2, h3]

/-- the target is validated (Series, no missing value, aligned) before the dev sample and before the values of the features -/
theorem target_before_features (k : Kind) (c : Call) (h1 : c.alreadyFitted = false) (h2 : c.xIsFrame = true)
    (h3 : c.missingColumns = false) (h4 : c.yIsSeries = true) (h5 : c.yHasNaN = true) :
    fitGuards k c = .assertion "y should not contain numpy.nan" := by
  simp [fitGuards, guards, firstFailing, h1, h2, h3, h4, h5]

/-! ## Non-vacuity -/
private def ok : Call := ⟨false, true, false, true, false, true, true, false, true, false, true, 2, true, false, false, false⟩
example : fitGuards .binaryCarver ok = .accepted := by decide
example : fitGuards .binaryCarver { ok with yHasNaN := true } = .assertion "y should not contain numpy.nan" := by decide
example : Malformed .continuousCarver ok := by unfold Malformed; decide
example : fitGuards .binaryCarver { ok with sameLength := false, alreadyFitted := true } = .assertion "already fitted" := by decide

end C19
