import ACModel.Driver.GroupedList
import ACModel.Driver.Discretizer
import ACModel.Driver.Carve
import ACModel.Driver.BaseDisc
import ACModel.Driver.Chained
import ACModel.Driver.Select
import ACModel.Driver.Pipeline
import ACModel.Driver.Multi
import ACModel.Driver.History
import ACModel.Driver.Measures
import ACModel.Driver.Validate
/-
  acdriver: JSON-lines driver around the executable model and the specification predicates.
  One request per line on stdin, one response per line on stdout.
-/
open Lean Wire

def dispatch (j : Json) : R Json := do
  match ← strF j "op" with
  | "ping" => pure (obj [("pong", Json.bool true)])
  | "gl.run" => DriverGL.run j
  | "judge.C13" => DriverGL.judge j
  | "carve" => DriverCarve.carve j
  | "carve.candidates" => DriverCarve.candidatesReq j
  | "carve.measure" => DriverCarve.measureReq j
  | "disc.summary" => DriverDisc.summary j
  | "combos" => DriverCarve.combos j
  | "quantiles" => DriverBase.quantiles j
  | "ordinal.merge" => DriverBase.ordinalMerge j
  | "kernels" => DriverBase.kernels j
  | "pipe.cont" => DriverPipe.cont j
  | "pipe.quant" => DriverPipe.quant j
  | "pipe.ordinal" => DriverPipe.ordinal j
  | "pipe.cat" => DriverPipe.cat j
  | "pipe.string" => DriverPipe.string j
  | "chained.fit" => DriverChained.chainedFit j
  | "select" => DriverSelect.select j
  | "disc.labels" => DriverDisc.labels j
  | "disc.transform" => DriverDisc.transform j
  | "disc.reload" => DriverDisc.reload j
  | "disc.update" => DriverDisc.update j
  | "disc.remove" => DriverDisc.remove j
  | "judge.C04" => DriverDisc.judgeC04 j
  | "judge.C05" => DriverDisc.judgeC05 j
  | "multi.assemble" => DriverMulti.assembleReq j
  | "judge.history" => DriverHist.judge j
  | "measure.exact" => DriverMeasures.exact j
  | "validate.fit" => DriverValidate.fit j
  | o => throw s!"unknown request {o}"

def handleLine (line : String) : String :=
  match Json.parse line with
  | .error e => (obj [("driver_error", Json.str s!"parse: {e}")]).compress
  | .ok j => match dispatch j with
    | .ok r => r.compress
    | .error e => (obj [("driver_error", Json.str e)]).compress

partial def loop (hin : IO.FS.Stream) (hout : IO.FS.Stream) : IO Unit := do
  let line ← hin.getLine
  if line.isEmpty then return ()
  let l := line.trimAscii.toString
  if l.isEmpty then loop hin hout else
  hout.putStrLn (handleLine l)
  hout.flush
  loop hin hout

def main : IO Unit := do
  loop (← IO.getStdin) (← IO.getStdout)
