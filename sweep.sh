#!/bin/bash
# ./sweep.sh <tier> <seed> [<seed> ...]: runs every claimed check with each seed (clean-tree false-alarm sweep); prints one line per
# check and seed, and the VIOLATION lines (KNOWN-FINDING lines are expected). Evidence / replays go to $VERIF_OUT when set.
cd "$(dirname "$0")"
tier=${1:-quick}; shift
( cd lean && lake build ACModel acdriver > /dev/null 2>&1 )
for s in "$@"; do
  for p in $(python3 -c "import json; print(' '.join(c['property_id'] for c in json.load(open('MANIFEST.json'))['checks']))"); do
    out=$(VERIF_SEED=$s ./check $p --tier $tier 2>&1); rc=$?
    echo "seed=$s $p rc=$rc $(echo "$out" | tail -1 | cut -c1-140)"
    echo "$out" | grep -E "^VIOLATION|Traceback|Error" | head -3
  done
done
